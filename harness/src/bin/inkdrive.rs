//! inkdrive — plays Ink stories under a script of host calls and records, after every public call,
//! the result class and the full observable projection of the story (DESIGN §4.1, §4.3).
//!
//! usage: inkdrive <scenarios.ndjson> <out.ndjson>
//!
//! A scenario:
//!   {"case": <id>, "programs": [{"ink": "..."} | {"json": "..."} | {"file": "..."} | {"inkfile": "..."}],
//!    "seed": 7, "fuel": 20000, "obs": {"save": true, "vars": true, "visits": true},
//!    "script": [{"op": "new", "on": 0, "prog": 0}, {"op": "cont"}, {"op": "choose", "i": 1}, ...]}
//! Every op may carry "on": <instance index> (default 0) and arbitrary extra keys, which are echoed
//! into the record under "meta" (the scenario builders use them to label probes).
//!
//! A panic inside the code under test is data: the record gets "res":"panic" and the instance is
//! poisoned (later ops on it are recorded as "res":"skipped").
use std::{
    alloc::{GlobalAlloc, Layout, System},
    cell::RefCell,
    collections::BTreeMap,
    io::{BufRead, BufWriter, Write},
    panic::{AssertUnwindSafe, catch_unwind},
    rc::Rc,
    sync::atomic::{AtomicIsize, Ordering},
};

use bladeink::{
    story::{
        Story,
        errors::{ErrorHandler, ErrorType},
        external_functions::ExternalFunction,
        variable_observer::VariableObserver,
    },
    story_error::StoryError,
    value_type::ValueType,
};
use bladeink_compiler::Compiler;
use serde_json::{Map, Value as J, json};

// ---------------------------------------------------------------- counting allocator (C18)
struct Counting;
static LIVE: AtomicIsize = AtomicIsize::new(0);
unsafe impl GlobalAlloc for Counting {
    unsafe fn alloc(&self, l: Layout) -> *mut u8 {
        LIVE.fetch_add(l.size() as isize, Ordering::Relaxed);
        unsafe { System.alloc(l) }
    }
    unsafe fn dealloc(&self, p: *mut u8, l: Layout) {
        LIVE.fetch_sub(l.size() as isize, Ordering::Relaxed);
        unsafe { System.dealloc(p, l) }
    }
    unsafe fn realloc(&self, p: *mut u8, l: Layout, n: usize) -> *mut u8 {
        LIVE.fetch_add(n as isize - l.size() as isize, Ordering::Relaxed);
        unsafe { System.realloc(p, l, n) }
    }
}
#[global_allocator]
static A: Counting = Counting;

// ---------------------------------------------------------------- callbacks
type CbLog = Rc<RefCell<Vec<J>>>;

struct Obs {
    id: i64,
    log: CbLog,
}
impl VariableObserver for Obs {
    fn changed(&mut self, name: &str, value: &ValueType) {
        self.log
            .borrow_mut()
            .push(json!({"k":"obs","o":self.id,"var":name,"val":val_json(value)}));
    }
}

struct Handler {
    log: CbLog,
}
impl ErrorHandler for Handler {
    fn error(&mut self, message: &str, t: ErrorType) {
        let ty = if t == ErrorType::Error { "E" } else { "W" };
        self.log
            .borrow_mut()
            .push(json!({"k":"msg","type":ty,"text":message}));
    }
}

/// Host implementation of an EXTERNAL: a pure, order-sensitive function of its arguments.
struct Ext {
    log: CbLog,
    spec: J,
    lines: Rc<RefCell<i64>>,
    delivered: Rc<RefCell<String>>,
}
impl ExternalFunction for Ext {
    fn call(&mut self, name: &str, args: Vec<ValueType>) -> Option<ValueType> {
        let a: Vec<J> = args.iter().map(val_json).collect();
        // marker rule (C12): the first argument names a marker word "m<k>q" of the line preceding the call site
        let seen = match args.first() {
            Some(ValueType::Int(k)) if *k >= 700000 => self.delivered.borrow().contains(&format!("m{}q", k)),
            _ => true,
        };
        self.log
            .borrow_mut()
            .push(json!({"k":"ext","f":name,"args":a,"lines":*self.lines.borrow(),"seen":seen}));
        let kind = self.spec.get("impl").and_then(|x| x.as_str()).unwrap_or("lin");
        match kind {
            "none" => None,
            "const" => Some(json_val(self.spec.get("value").unwrap_or(&J::Null))),
            "cat" => {
                let mut s = String::new();
                for a in &args {
                    s.push_str(&a.coerce_to_string().unwrap_or_else(|_| "?".into()));
                }
                Some(ValueType::from(s.as_str()))
            }
            _ => {
                // "lin": sum coef[i] * int(arg[i]) + add, wrapping 32 bit
                let coef = self.spec.get("coef").and_then(|c| c.as_array()).cloned().unwrap_or_default();
                let add = self.spec.get("add").and_then(|c| c.as_i64()).unwrap_or(0) as i32;
                let mut acc: i32 = add;
                for (i, a) in args.iter().enumerate() {
                    let c = coef.get(i).and_then(|c| c.as_i64()).unwrap_or(1) as i32;
                    let v = a.coerce_to_int().unwrap_or(0);
                    acc = acc.wrapping_add(c.wrapping_mul(v));
                }
                Some(ValueType::Int(acc))
            }
        }
    }
}

// ---------------------------------------------------------------- value <-> json
fn val_json(v: &ValueType) -> J {
    match v {
        ValueType::Bool(b) => json!({"t":"bool","v":b}),
        ValueType::Int(i) => json!({"t":"int","v":i}),
        ValueType::Float(f) => json!({"t":"float","bits":f.to_bits(),"s":format!("{}", f)}),
        ValueType::String(s) => json!({"t":"str","v":s.string}),
        ValueType::List(l) => {
            let mut items: Vec<(String, i32)> =
                l.items.iter().map(|(k, v)| (k.get_full_name(), *v)).collect();
            items.sort();
            // (InkList::get_origin_names unwraps the origin of every item; an item without one is reported here
            // instead of taking the harness down with it)
            let orphan = l.items.keys().any(|k| k.get_origin_name().is_none());
            let mut origins: Vec<String> = if orphan {
                l.items.keys().filter_map(|k| k.get_origin_name().cloned()).collect()
            } else {
                l.get_origin_names()
            };
            origins.sort();
            origins.dedup();
            if orphan {
                json!({"t":"list","items":items,"origins":origins,"item_without_origin":true})
            } else {
                json!({"t":"list","items":items,"origins":origins})
            }
        }
        ValueType::DivertTarget(p) => json!({"t":"target","v":p.to_string()}),
        ValueType::VariablePointer(_) => json!({"t":"varptr"}),
    }
}

fn json_val(j: &J) -> ValueType {
    match j {
        J::Bool(b) => ValueType::Bool(*b),
        J::Number(n) => {
            if let Some(i) = n.as_i64() {
                ValueType::Int(i as i32)
            } else {
                ValueType::Float(n.as_f64().unwrap_or(0.0) as f32)
            }
        }
        J::String(s) => ValueType::from(s.as_str()),
        J::Object(o) => match o.get("t").and_then(|t| t.as_str()) {
            Some("float") => ValueType::Float(o.get("v").and_then(|v| v.as_f64()).unwrap_or(0.0) as f32),
            Some("int") => ValueType::Int(o.get("v").and_then(|v| v.as_i64()).unwrap_or(0) as i32),
            Some("bool") => ValueType::Bool(o.get("v").and_then(|v| v.as_bool()).unwrap_or(false)),
            Some("str") => ValueType::from(o.get("v").and_then(|v| v.as_str()).unwrap_or("")),
            Some("target") => {
                // a value type the host must not pass (negative test): obtained from the story itself
                ValueType::from(o.get("v").and_then(|v| v.as_str()).unwrap_or(""))
            }
            _ => ValueType::Int(0),
        },
        _ => ValueType::Int(0),
    }
}

fn sort_json(j: &J) -> J {
    match j {
        J::Object(o) => {
            let mut b: BTreeMap<String, J> = BTreeMap::new();
            for (k, v) in o {
                b.insert(k.clone(), sort_json(v));
            }
            let mut m = Map::new();
            for (k, v) in b {
                m.insert(k, v);
            }
            J::Object(m)
        }
        J::Array(a) => J::Array(a.iter().map(sort_json).collect()),
        x => x.clone(),
    }
}

// ---------------------------------------------------------------- program info
#[derive(Default, Clone)]
struct ProgInfo {
    json: String,
    globals: Vec<String>,
    containers: Vec<String>,
    compile_error: Option<String>,
    compile_detail: J,
}

/// names of globals ("global decl") and of knots / stitches (two levels of named content)
fn scan_program(json_text: &str) -> (Vec<String>, Vec<String>) {
    let mut globals = Vec::new();
    let mut containers = Vec::new();
    let Ok(doc) = serde_json::from_str::<J>(json_text) else {
        return (globals, containers);
    };
    let Some(root) = doc.get("root").and_then(|r| r.as_array()) else {
        return (globals, containers);
    };
    fn named(arr: &[J]) -> Option<&Map<String, J>> {
        arr.last().and_then(|l| l.as_object())
    }
    fn collect_vars(j: &J, out: &mut Vec<String>) {
        match j {
            J::Array(a) => a.iter().for_each(|x| collect_vars(x, out)),
            J::Object(o) => {
                if let Some(J::String(n)) = o.get("VAR=") {
                    if !o.contains_key("re") && !out.contains(n) {
                        out.push(n.clone());
                    }
                }
                o.values().for_each(|x| collect_vars(x, out));
            }
            _ => {}
        }
    }
    if let Some(n) = named(root) {
        for (k, v) in n {
            if k.starts_with('#') {
                continue;
            }
            if k == "global decl" {
                collect_vars(v, &mut globals);
                continue;
            }
            if let Some(a) = v.as_array() {
                containers.push(k.clone());
                if let Some(sub) = named(a) {
                    for (k2, v2) in sub {
                        if k2.starts_with('#') || !v2.is_array() {
                            continue;
                        }
                        containers.push(format!("{}.{}", k, k2));
                    }
                }
            }
        }
    }
    globals.sort();
    containers.sort();
    (globals, containers)
}

fn load_program(p: &J) -> ProgInfo {
    let mut info = ProgInfo::default();
    let src_of = |key: &str| -> Option<String> {
        p.get(key).and_then(|v| v.as_str()).map(|path| std::fs::read_to_string(path).unwrap_or_default())
    };
    if let Some(j) = p.get("json").and_then(|v| v.as_str()) {
        info.json = j.to_string();
    } else if let Some(j) = src_of("file") {
        info.json = j.trim_start_matches('\u{feff}').to_string();
    } else {
        let src = p
            .get("ink")
            .and_then(|v| v.as_str())
            .map(|s| s.to_string())
            .or_else(|| src_of("inkfile"))
            .unwrap_or_default();
        let count_all = p.get("count_all_visits").and_then(|v| v.as_bool()).unwrap_or(true);
        let r = catch_unwind(AssertUnwindSafe(|| {
            let c = Compiler::with_options(bladeink_compiler::CompilerOptions {
                count_all_visits: count_all,
                source_filename: None,
            });
            match p.get("inkfile").and_then(|v| v.as_str()) {
                Some(path) => {
                    let dir = std::path::Path::new(path).parent().map(|d| d.to_path_buf()).unwrap_or_default();
                    c.compile_with_file_handler(&src, |name| {
                        std::fs::read_to_string(dir.join(name))
                            .map_err(|e| bladeink_compiler::CompilerError::invalid_source(format!("{}: {}", name, e)))
                    })
                }
                None => c.compile(&src),
            }
        }));
        match r {
            Ok(Ok(j)) => info.json = j,
            Ok(Err(e)) => {
                info.compile_error = Some(format!("err: {}", e));
                let (file, line) = match &e {
                    bladeink_compiler::CompilerError::InvalidSource { file, line, .. }
                    | bladeink_compiler::CompilerError::UnsupportedFeature { file, line, .. } => (file.clone(), *line),
                };
                info.compile_detail = json!({"kind":"err","file":file,"line":line,"message":e.message()});
            }
            Err(_) => {
                let p = take_panic();
                info.compile_error = Some(format!("panic: {}", p));
                info.compile_detail = json!({"kind":"panic","detail":p});
            }
        }
    }
    let (g, c) = scan_program(&info.json);
    info.globals = g;
    info.containers = c;
    info
}

// ---------------------------------------------------------------- panic capture
thread_local! { static LAST_PANIC: RefCell<String> = RefCell::new(String::new()); }
fn take_panic() -> String {
    LAST_PANIC.with(|p| std::mem::take(&mut *p.borrow_mut()))
}

// ---------------------------------------------------------------- instance
struct Inst {
    story: Option<Story>,
    prog: usize,
    poisoned: bool,
    log: CbLog,
    lines: Rc<RefCell<i64>>,
    delivered: Rc<RefCell<String>>,
    observers: BTreeMap<i64, Rc<RefCell<dyn VariableObserver>>>,
    seed: Option<i32>,
}

fn err_json(e: &StoryError) -> (String, String) {
    let kind = match e {
        StoryError::InvalidStoryState(_) => "InvalidStoryState",
        StoryError::BadJson(_) => "BadJson",
        StoryError::BadArgument(_) => "BadArgument",
    };
    (kind.to_string(), e.to_string())
}

struct ObsCfg {
    save: bool,
    vars: bool,
    visits: bool,
    extra_visits: Vec<String>,
}

fn observe(st: &mut Story, info: &ProgInfo, cfg: &ObsCfg) -> J {
    let mut o = Map::new();
    o.insert("can".into(), json!(st.can_continue()));
    let asyncp = st.verif_async_active();
    o.insert("async".into(), json!(asyncp));
    match st.get_current_text() {
        Ok(t) => o.insert("text".into(), json!(t)),
        Err(_) => o.insert("text".into(), json!({"refused":true})),
    };
    match st.get_current_tags() {
        Ok(t) => o.insert("tags".into(), json!(t)),
        Err(_) => o.insert("tags".into(), json!({"refused":true})),
    };
    let ch: Vec<J> = st
        .get_current_choices()
        .iter()
        .map(|c| json!({"text":c.text,"tags":c.tags,"index":*c.index.borrow()}))
        .collect();
    o.insert("choices".into(), J::Array(ch));
    o.insert("errors".into(), json!(st.get_current_errors()));
    o.insert("warnings".into(), json!(st.get_current_warnings()));
    o.insert("path".into(), json!(st.get_current_path()));
    if cfg.vars {
        let mut m = Map::new();
        for g in &info.globals {
            match st.get_variable(g) {
                Some(v) => m.insert(g.clone(), val_json(&v)),
                None => m.insert(g.clone(), json!({"t":"missing"})),
            };
        }
        o.insert("vars".into(), J::Object(m));
    }
    if cfg.visits {
        let mut m = Map::new();
        for c in info.containers.iter().chain(cfg.extra_visits.iter()) {
            match st.get_visit_count_at_path_string(c) {
                Ok(n) => m.insert(c.clone(), json!(n)),
                Err(_) => m.insert(c.clone(), json!("err")),
            };
        }
        o.insert("visits".into(), J::Object(m));
    }
    if cfg.save {
        match st.save_state() {
            Ok(s) => match serde_json::from_str::<J>(&s) {
                Ok(j) => o.insert("save".into(), sort_json(&j)),
                Err(_) => o.insert("save".into(), json!({"unparsable":s})),
            },
            Err(e) => o.insert("save".into(), json!({"err":e.to_string()})),
        };
    }
    J::Object(o)
}

fn args_of(op: &J) -> Option<Vec<ValueType>> {
    op.get("args").and_then(|a| a.as_array()).map(|a| a.iter().map(json_val).collect())
}

/// executes one op; returns (res, extra fields)
fn exec(
    op: &J,
    inst: &mut Inst,
    progs: &[ProgInfo],
    slots: &mut BTreeMap<String, String>,
    default_fuel: Option<u64>,
) -> Map<String, J> {
    let mut r = Map::new();
    let name = op.get("op").and_then(|x| x.as_str()).unwrap_or("");
    let s = |k: &str| op.get(k).and_then(|x| x.as_str()).unwrap_or("").to_string();
    let ok = |r: &mut Map<String, J>| {
        r.insert("res".into(), json!("ok"));
    };
    let fail = |r: &mut Map<String, J>, e: &StoryError| {
        let (k, m) = err_json(e);
        r.insert("res".into(), json!("err"));
        r.insert("errkind".into(), json!(k));
        r.insert("errmsg".into(), json!(m));
    };
    macro_rules! unit {
        ($e:expr) => {
            match $e {
                Ok(_) => ok(&mut r),
                Err(e) => fail(&mut r, &e),
            }
        };
    }
    if name == "new" {
        let pi = op.get("prog").and_then(|x| x.as_u64()).unwrap_or(0) as usize;
        inst.prog = pi;
        inst.observers.clear();
        inst.delivered.borrow_mut().clear();
        *inst.lines.borrow_mut() = 0;
        let before = LIVE.load(Ordering::Relaxed);
        r.insert("live_before".into(), json!(before));
        match Story::new(&progs[pi].json) {
            Ok(mut st) => {
                if let Some(seed) = inst.seed {
                    st.verif_set_story_seed(seed);
                }
                st.verif_set_step_fuel(default_fuel);
                inst.story = Some(st);
                ok(&mut r);
            }
            Err(e) => {
                inst.story = None;
                fail(&mut r, &e);
            }
        }
        return r;
    }
    if name == "drop" {
        inst.story = None;
        inst.observers.clear();
        inst.log.borrow_mut().clear();
        ok(&mut r);
        r.insert("live_after".into(), json!(LIVE.load(Ordering::Relaxed)));
        return r;
    }
    let Some(st) = inst.story.as_mut() else {
        r.insert("res".into(), json!("skipped"));
        return r;
    };
    match name {
        "cont" => match st.cont() {
            Ok(t) => {
                ok(&mut r);
                if !t.is_empty() {
                    *inst.lines.borrow_mut() += 1;
                }
                inst.delivered.borrow_mut().push_str(&t);
                r.insert("val".into(), json!(t));
            }
            Err(e) => fail(&mut r, &e),
        },
        "cont_async" => {
            let b = op.get("budget").and_then(|x| x.as_u64()).map(|x| x as u32);
            st.verif_set_async_step_budget(b);
            let ms = op.get("ms").and_then(|x| x.as_f64()).unwrap_or(1.0e9) as f32;
            match st.continue_async(ms) {
                Ok(()) => {
                    ok(&mut r);
                    let fin = !st.verif_async_active();
                    r.insert("finished".into(), json!(fin));
                    if fin {
                        *inst.lines.borrow_mut() += 1;
                    }
                }
                Err(e) => fail(&mut r, &e),
            }
        }
        "cont_max" => match st.continue_maximally() {
            Ok(t) => {
                ok(&mut r);
                r.insert("val".into(), json!(t));
            }
            Err(e) => fail(&mut r, &e),
        },
        "get_text" => match st.get_current_text() {
            Ok(t) => {
                ok(&mut r);
                r.insert("val".into(), json!(t));
            }
            Err(e) => fail(&mut r, &e),
        },
        "get_tags" => match st.get_current_tags() {
            Ok(t) => {
                ok(&mut r);
                r.insert("val".into(), json!(t));
            }
            Err(e) => fail(&mut r, &e),
        },
        "global_tags" => match st.get_global_tags() {
            Ok(t) => {
                ok(&mut r);
                r.insert("val".into(), json!(t));
            }
            Err(e) => fail(&mut r, &e),
        },
        "tags_at" => match st.tags_for_content_at_path(&s("path")) {
            Ok(t) => {
                ok(&mut r);
                r.insert("val".into(), json!(t));
            }
            Err(e) => fail(&mut r, &e),
        },
        "visit_count" => match st.get_visit_count_at_path_string(&s("path")) {
            Ok(t) => {
                ok(&mut r);
                r.insert("val".into(), json!(t));
            }
            Err(e) => fail(&mut r, &e),
        },
        "choose" => {
            let mut i = op.get("i").and_then(|x| x.as_u64()).unwrap_or(0) as usize;
            if op.get("mod").and_then(|x| x.as_bool()).unwrap_or(false) {
                // random walks: the index is taken modulo the number of choices on offer and reported
                let n = st.get_current_choices().len();
                if n > 0 {
                    i %= n;
                }
                r.insert("chosen".into(), json!(i));
            }
            unit!(st.choose_choice_index(i))
        }
        "choose_path" => {
            let reset = op.get("reset").and_then(|x| x.as_bool()).unwrap_or(true);
            let a = args_of(op);
            unit!(st.choose_path_string(&s("path"), reset, a.as_ref()))
        }
        "eval_fn" => {
            let a = args_of(op);
            let mut text = String::new();
            match st.evaluate_function(&s("name"), a.as_ref(), &mut text) {
                Ok(v) => {
                    ok(&mut r);
                    r.insert("val".into(), json!({"ret": v.as_ref().map(val_json), "text": text}));
                }
                Err(e) => fail(&mut r, &e),
            }
        }
        "set_var" => {
            let v = json_val(op.get("value").unwrap_or(&J::Null));
            unit!(st.set_variable(&s("name"), &v))
        }
        "get_var" => {
            ok(&mut r);
            r.insert("val".into(), json!(st.get_variable(&s("name")).as_ref().map(val_json)));
        }
        "observe" => {
            let id = op.get("obs").and_then(|x| x.as_i64()).unwrap_or(0);
            let o = inst
                .observers
                .entry(id)
                .or_insert_with(|| Rc::new(RefCell::new(Obs { id, log: inst.log.clone() })))
                .clone();
            unit!(st.observe_variable(&s("var"), o))
        }
        "remove_observer" => {
            let id = op.get("obs").and_then(|x| x.as_i64()).unwrap_or(0);
            let o = inst
                .observers
                .entry(id)
                .or_insert_with(|| Rc::new(RefCell::new(Obs { id, log: inst.log.clone() })))
                .clone();
            let var = op.get("var").and_then(|x| x.as_str());
            unit!(st.remove_variable_observer(&o, var))
        }
        "bind" => {
            let safe = op.get("safe").and_then(|x| x.as_bool()).unwrap_or(false);
            let f = Rc::new(RefCell::new(Ext {
                log: inst.log.clone(),
                spec: op.get("spec").cloned().unwrap_or(json!({})),
                lines: inst.lines.clone(),
                delivered: inst.delivered.clone(),
            }));
            unit!(st.bind_external_function(&s("name"), f, safe))
        }
        "unbind" => unit!(st.unbind_external_function(&s("name"))),
        "set_fallbacks" => {
            st.set_allow_external_function_fallbacks(op.get("v").and_then(|x| x.as_bool()).unwrap_or(true));
            ok(&mut r);
        }
        "set_handler" => {
            st.set_error_handler(Rc::new(RefCell::new(Handler { log: inst.log.clone() })));
            ok(&mut r);
        }
        "switch_flow" => unit!(st.switch_flow(&s("name"))),
        "switch_default" => {
            st.switch_to_default_flow();
            ok(&mut r);
        }
        "remove_flow" => unit!(st.remove_flow(&s("name"))),
        "save" => match st.save_state() {
            Ok(t) => {
                slots.insert(s("slot"), t);
                ok(&mut r);
            }
            Err(e) => fail(&mut r, &e),
        },
        "load" => {
            let t = slots.get(&s("slot")).cloned().unwrap_or_default();
            inst.delivered.borrow_mut().clear();
            unit!(st.load_state(&t))
        }
        "load_text" => unit!(st.load_state(&s("text"))),
        "reset" => {
            // (the step fuel is the harness's own device: a history that used it up must not make the reset fail, which
            // runs the global declarations)
            st.verif_set_step_fuel(default_fuel);
            let res = st.reset_state();
            if res.is_ok() {
                if let Some(seed) = inst.seed {
                    st.verif_set_story_seed(seed);
                }
                st.verif_set_step_fuel(default_fuel);
                *inst.lines.borrow_mut() = 0;
                inst.delivered.borrow_mut().clear();
            }
            unit!(res)
        }
        "set_seed" => {
            let seed = op.get("seed").and_then(|x| x.as_i64()).unwrap_or(0) as i32;
            inst.seed = Some(seed);
            st.verif_set_story_seed(seed);
            ok(&mut r);
        }
        "set_fuel" => {
            st.verif_set_step_fuel(op.get("fuel").and_then(|x| x.as_u64()));
            ok(&mut r);
        }
        "audit" => {
            // content audit (hook): one row per object, plus relative-path rows for pairs of nearby and random objects
            let rows = st.verif_content_audit();
            let n = rows.len();
            let span = op.get("span").and_then(|x| x.as_u64()).unwrap_or(4) as usize;
            let extra = op.get("random_pairs").and_then(|x| x.as_u64()).unwrap_or(200) as usize;
            let mut pairs: Vec<(usize, usize)> = Vec::new();
            let stride = std::cmp::max(1, n / op.get("max_from").and_then(|x| x.as_u64()).unwrap_or(400) as usize);
            let mut i = 0;
            while i < n {
                for d in 1..=span {
                    if i + d < n {
                        pairs.push((i, i + d));
                        pairs.push((i + d, i));
                    }
                }
                if let Some(p) = rows[i].parent {
                    pairs.push((i, p));
                    pairs.push((p, i));
                    if let Some(g) = rows[p].parent {
                        pairs.push((i, g));
                        pairs.push((g, i));
                    }
                }
                i += stride;
            }
            let mut x: u64 = op.get("pair_seed").and_then(|x| x.as_u64()).unwrap_or(12345) | 1;
            for _ in 0..extra {
                x = x.wrapping_mul(6364136223846793005).wrapping_add(1442695040888963407);
                let a = (x >> 33) as usize % n.max(1);
                x = x.wrapping_mul(6364136223846793005).wrapping_add(1442695040888963407);
                let b = (x >> 33) as usize % n.max(1);
                if a != 0 && b != 0 {
                    pairs.push((a, b));
                }
            }
            pairs.retain(|(a, b)| *a != 0 && a != b);
            let rel = st.verif_relative_audit(&pairs);
            let rows_j: Vec<J> = rows
                .iter()
                .map(|w| json!({"i": w.ordinal, "p": w.parent, "x": w.index, "n": w.name, "k": w.kind, "t": w.text, "f": w.flags,
                                "path": w.path, "self": w.resolves_to_self, "approx": w.approximate, "re": w.reparsed,
                                "rerel": w.reparsed_relative, "reeq": w.reparsed_eq, "heq": w.hash_eq}))
                .collect();
            let rel_j: Vec<J> = rel
                .iter()
                .map(|w| json!({"a": w.from, "b": w.to, "rel": w.relative, "isrel": w.is_relative, "ok": w.resolves,
                                "rt": w.roundtrip, "re": w.reparsed, "reeq": w.reparsed_eq, "heq": w.hash_eq,
                                "peq": w.paths_eq, "pheq": w.paths_hash_eq}))
                .collect();
            ok(&mut r);
            r.insert("val".into(), json!({"rows": rows_j, "rel": rel_j}));
        }
        "poll" | "nop" => ok(&mut r),
        "hierarchy" => {
            ok(&mut r);
            r.insert("val".into(), json!(st.build_string_of_hierarchy().len()));
        }
        _ => {
            r.insert("res".into(), json!("badop"));
        }
    }
    r.insert("steps".into(), json!(st.verif_total_steps()));
    r
}

fn run_case(sc: &J, out: &mut impl Write) {
    let case = sc.get("case").cloned().unwrap_or(json!(0));
    let progs: Vec<ProgInfo> = sc
        .get("programs")
        .and_then(|p| p.as_array())
        .map(|a| a.iter().map(load_program).collect())
        .unwrap_or_default();
    let seed = sc.get("seed").and_then(|x| x.as_i64()).map(|x| x as i32);
    let fuel = sc.get("fuel").and_then(|x| x.as_u64());
    let ocfg = sc.get("obs").cloned().unwrap_or(json!({}));
    let flag = |k: &str, d: bool| ocfg.get(k).and_then(|x| x.as_bool()).unwrap_or(d);
    let cfg = ObsCfg {
        save: flag("save", true),
        vars: flag("vars", true),
        visits: flag("visits", true),
        extra_visits: ocfg
            .get("extra_visits")
            .and_then(|x| x.as_array())
            .map(|a| a.iter().filter_map(|x| x.as_str().map(|s| s.to_string())).collect())
            .unwrap_or_default(),
    };
    // header record: compile outcomes and program facts
    let hdr: Vec<J> = progs
        .iter()
        .map(|p| {
            json!({"compile_error": p.compile_error, "compile_detail": p.compile_detail, "globals": p.globals, "containers": p.containers,
                   "json_len": p.json.len(), "json": if sc.get("echo_json").is_some() { J::String(p.json.clone()) } else { J::Null }})
        })
        .collect();
    writeln!(out, "{}", json!({"case": case, "n": 0, "op": "programs", "programs": hdr})).unwrap();
    if progs.iter().any(|p| p.compile_error.is_some()) && sc.get("allow_compile_error").is_none() {
        return;
    }
    if let Some(ex) = sc.get("explore") {
        explore(sc, ex, &progs, seed, fuel, &cfg, out);
        return;
    }
    let empty = Vec::new();
    let script = sc.get("script").and_then(|s| s.as_array()).unwrap_or(&empty);
    run_script(&case, J::Null, script, 0, &progs, seed, fuel, &cfg, out);
}

/// runs a script; returns the number of visible choices of instance 0 at the end (for explore)
#[allow(clippy::too_many_arguments)]
fn run_script(
    case: &J,
    path: J,
    script: &[J],
    emit_from: usize,
    progs: &[ProgInfo],
    seed: Option<i32>,
    fuel: Option<u64>,
    cfg: &ObsCfg,
    out: &mut impl Write,
) -> (usize, bool) {
    let mut insts: BTreeMap<u64, Inst> = BTreeMap::new();
    let mut slots: BTreeMap<String, String> = BTreeMap::new();
    let mut n = 0usize;
    let mut last_choices = 0usize;
    let mut faulted = false;
    for (opi, op0) in script.iter().enumerate() {
        let on = op0.get("on").and_then(|x| x.as_u64()).unwrap_or(0);
        let is_turn = op0.get("op").and_then(|x| x.as_str()) == Some("turn");
        let is_slices = op0.get("op").and_then(|x| x.as_str()) == Some("slices");
        let mut reps = 0;
        loop {
            let inst = insts.entry(on).or_insert_with(|| Inst {
                story: None,
                prog: 0,
                poisoned: false,
                log: Rc::new(RefCell::new(Vec::new())),
                lines: Rc::new(RefCell::new(0)),
                delivered: Rc::new(RefCell::new(String::new())),
                observers: BTreeMap::new(),
                seed,
            });
            let op: J = if is_turn {
                let can = inst.story.as_ref().map(|s| s.can_continue()).unwrap_or(false);
                if reps >= 500 {
                    faulted = true; // a turn that never ends: not explored further
                }
                if !can || inst.poisoned || reps >= 500 {
                    break;
                }
                let mut o = op0.clone();
                o.as_object_mut().unwrap().insert("op".into(), json!("cont"));
                o.as_object_mut().unwrap().insert("macro".into(), json!("turn"));
                o
            } else if is_slices {
                if inst.poisoned || reps >= 5000 {
                    break;
                }
                let mut o = op0.clone();
                o.as_object_mut().unwrap().insert("op".into(), json!("cont_async"));
                o.as_object_mut().unwrap().insert("macro".into(), json!("slices"));
                o
            } else {
                op0.clone()
            };
            reps += 1;
            n += 1;
            let mut rec = Map::new();
            rec.insert("case".into(), case.clone());
            if !path.is_null() {
                rec.insert("path".into(), path.clone());
            }
            rec.insert("n".into(), json!(n));
            rec.insert("opi".into(), json!(opi));
            rec.insert("on".into(), json!(on));
            rec.insert("op".into(), op.get("op").cloned().unwrap_or(J::Null));
            rec.insert("opfull".into(), op.clone());
            if inst.poisoned {
                rec.insert("res".into(), json!("skipped"));
            } else {
                let res = catch_unwind(AssertUnwindSafe(|| exec(&op, inst, progs, &mut slots, fuel)));
                match res {
                    Ok(m) => {
                        for (k, v) in m {
                            rec.insert(k, v);
                        }
                    }
                    Err(_) => {
                        rec.insert("res".into(), json!("panic"));
                        rec.insert("panic".into(), json!(take_panic()));
                        inst.poisoned = true;
                        faulted = true;
                    }
                }
                let cb: Vec<J> = std::mem::take(&mut *inst.log.borrow_mut());
                rec.insert("cb".into(), J::Array(cb));
                if !inst.poisoned {
                    if let Some(st) = inst.story.as_mut() {
                        let info = &progs[inst.prog];
                        match catch_unwind(AssertUnwindSafe(|| observe(st, info, cfg))) {
                            Ok(o) => {
                                if on == 0 {
                                    last_choices = o.get("choices").and_then(|c| c.as_array()).map(|a| a.len()).unwrap_or(0);
                                    if o.get("errors").and_then(|c| c.as_array()).map(|a| !a.is_empty()).unwrap_or(false) {
                                        faulted = true;
                                    }
                                }
                                rec.insert("obs".into(), o);
                            }
                            Err(_) => {
                                rec.insert("obs_panic".into(), json!(take_panic()));
                                inst.poisoned = true;
                                faulted = true;
                            }
                        }
                    }
                }
                if rec.get("res").and_then(|r| r.as_str()) == Some("err") && is_turn {
                    faulted = true;
                }
            }
            rec.insert("live".into(), json!(LIVE.load(Ordering::Relaxed)));
            let rec_finished = rec.get("finished").and_then(|x| x.as_bool()).unwrap_or(true)
                || rec.get("res").and_then(|x| x.as_str()) != Some("ok");
            if opi >= emit_from {
                writeln!(out, "{}", J::Object(rec)).unwrap();
            }
            if is_slices {
                let fin = rec_finished;
                if fin || faulted {
                    break;
                }
                continue;
            }
            if !is_turn || faulted {
                break;
            }
        }
    }
    insts.clear();
    (last_choices, faulted)
}

/// breadth-first exploration of all choice paths by re-execution (base runs)
#[allow(clippy::too_many_arguments)]
fn explore(
    sc: &J,
    ex: &J,
    progs: &[ProgInfo],
    seed: Option<i32>,
    fuel: Option<u64>,
    cfg: &ObsCfg,
    out: &mut impl Write,
) {
    let case = sc.get("case").cloned().unwrap_or(json!(0));
    let depth = ex.get("depth").and_then(|x| x.as_u64()).unwrap_or(4) as usize;
    let max_paths = ex.get("max_paths").and_then(|x| x.as_u64()).unwrap_or(200) as usize;
    let emit_prefix = ex.get("emit_prefix").and_then(|x| x.as_bool()).unwrap_or(false);
    let prelude: Vec<J> = ex.get("prelude").and_then(|x| x.as_array()).cloned().unwrap_or_default();
    let mut queue: std::collections::VecDeque<Vec<usize>> = std::collections::VecDeque::new();
    queue.push_back(vec![]);
    let mut done = 0usize;
    while let Some(p) = queue.pop_front() {
        if done >= max_paths {
            break;
        }
        done += 1;
        let mut script: Vec<J> = vec![json!({"op":"new"})];
        script.extend(prelude.iter().cloned());
        script.push(json!({"op":"turn"}));
        for c in &p {
            script.push(json!({"op":"choose","i":c}));
            script.push(json!({"op":"turn"}));
        }
        let emit_from = if emit_prefix || p.is_empty() { 0 } else { script.len() - 2 };
        let (nch, faulted) = run_script(&case, json!(p), &script, emit_from, progs, seed, fuel, cfg, out);
        writeln!(out, "{}", json!({"case": case, "path": p, "n": -4, "op": "path_end", "choices": nch, "faulted": faulted})).unwrap();
        if !faulted && p.len() < depth {
            for i in 0..nch {
                let mut q = p.clone();
                q.push(i);
                queue.push_back(q);
            }
        }
    }
    // explicit (deep) paths, e.g. found by a random walk: emitted whole
    for p in ex.get("extra_paths").and_then(|x| x.as_array()).cloned().unwrap_or_default() {
        let p: Vec<usize> = p.as_array().map(|a| a.iter().filter_map(|x| x.as_u64()).map(|x| x as usize).collect()).unwrap_or_default();
        let mut script: Vec<J> = vec![json!({"op":"new"})];
        script.extend(prelude.iter().cloned());
        script.push(json!({"op":"turn"}));
        for c in &p {
            script.push(json!({"op":"choose","i":c}));
            script.push(json!({"op":"turn"}));
        }
        let (nch, faulted) = run_script(&case, json!({"walk": p}), &script, 0, progs, seed, fuel, cfg, out);
        writeln!(out, "{}", json!({"case": case, "path": {"walk": p}, "n": -4, "op": "path_end", "choices": nch, "faulted": faulted})).unwrap();
    }
}

fn main() {
    let args: Vec<String> = std::env::args().collect();
    if args.len() < 3 {
        eprintln!("usage: inkdrive <scenarios.ndjson> <out.ndjson>");
        std::process::exit(2);
    }
    std::panic::set_hook(Box::new(|info| {
        let loc = info.location().map(|l| format!("{}:{}", l.file(), l.line())).unwrap_or_default();
        let msg = if let Some(s) = info.payload().downcast_ref::<&str>() {
            s.to_string()
        } else if let Some(s) = info.payload().downcast_ref::<String>() {
            s.clone()
        } else {
            "?".to_string()
        };
        LAST_PANIC.with(|p| *p.borrow_mut() = format!("{} @ {}", msg, loc));
    }));
    let input = std::io::BufReader::new(std::fs::File::open(&args[1]).expect("scenario file"));
    let mut out = BufWriter::new(std::fs::File::create(&args[2]).expect("output file"));
    let stack = std::env::var("INKDRIVE_STACK_MB").ok().and_then(|s| s.parse::<usize>().ok()).unwrap_or(64);
    let child = std::thread::Builder::new()
        .stack_size(stack * 1024 * 1024)
        .spawn(move || {
            for line in input.lines() {
                let line = line.unwrap();
                if line.trim().is_empty() {
                    continue;
                }
                let sc: J = match serde_json::from_str(&line) {
                    Ok(j) => j,
                    Err(e) => {
                        eprintln!("bad scenario line: {}", e);
                        std::process::exit(2);
                    }
                };
                // begin marker, flushed, so that an abort is attributable to a case
                writeln!(out, "{}", json!({"case": sc.get("case"), "n": -1, "op": "begin"})).unwrap();
                out.flush().unwrap();
                let r = catch_unwind(AssertUnwindSafe(|| run_case(&sc, &mut out)));
                if r.is_err() {
                    writeln!(out, "{}", json!({"case": sc.get("case"), "n": -2, "op": "harness_panic", "panic": take_panic()})).unwrap();
                }
                writeln!(out, "{}", json!({"case": sc.get("case"), "n": -3, "op": "end"})).unwrap();
            }
            out.flush().unwrap();
        })
        .unwrap();
    child.join().unwrap();
}
