"""debug helper: print a C01 replay compactly: showrep.py <replay.json> [--story]"""
import json, sys
r = json.load(open(sys.argv[1]))
print(r["case"], "turn", r["turn"], r["rule"], r["detail"], "path", r["path"])
if r["rule"].startswith("Cont"):
    ex = r["expected"]["seen"]
    print("EXP", repr("".join(chr(c) for c in ex["text"])), ["".join(chr(c) for c in t) for t in ex["tags"]], ex["can"], ["".join(chr(c) for c in t) for t in ex["choices"]])
    for a in r["actual"]:
        print("ACT", repr(a["text"]), a["tags"], a["can"], a["choices"])
elif r["rule"].startswith("Turn"):
    e, a = r["expected"], r["actual"]
    for k in ("status", "lines", "choices"):
        if e[k] != a[k]:
            if k == "status":
                print("EXP", e[k], "ACT", a[k])
            else:
                for i in range(max(len(e[k]), len(a[k]))):
                    x = e[k][i] if i < len(e[k]) else None
                    y = a[k][i] if i < len(a[k]) else None
                    if x != y:
                        print(k, i, "EXP", x)
                        print(k, i, "ACT", y)
                        break
else:
    print("EXP", json.dumps(r["expected"])[:800])
    print("ACT", json.dumps(r["actual"])[:800])
if "--story" in sys.argv:
    print(r["story"])
open("/tmp/c01w/last.ink", "w").write(r["story"])
