#!/bin/bash
# applies every seeded change in turn, runs the quick check of its property, reverts; one line per seed.
# /repo must be clean and no other check may run meanwhile (checks rebuild from /repo's working tree).
cd /repo || exit 2
git diff --quiet || { echo "/repo not clean"; exit 2; }
for d in /verif/seeded/c*; do
  n=$(basename $d); prop=$(echo $n | cut -d- -f1 | tr c C)
  [ -n "$1" ] && [[ "$n" != $1 ]] && continue
  if ! git -C /repo apply $d/patch.diff 2>/dev/null; then echo "$n does-not-apply"; continue; fi
  out=$(cd /verif && VERIF_SEED=${VERIF_SEED:-1} ./check $prop --tier quick 2>&1); rc=$?
  echo "$n $prop rc=$rc viol=$(echo "$out" | grep -c '^VIOLATION') $(echo "$out" | grep -E 'TOOL ERROR' | head -1 | cut -c1-120)"
  git -C /repo checkout -- . ; git -C /repo clean -fdq -- runtime compiler rinklecate 2>/dev/null
done
git -C /repo status --short | head -3
echo SWEEPDONE
