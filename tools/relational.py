"""Converter and batch driver for the relational checks: builds the reference transition system
(trie) from base runs, turns probed runs into events, runs TLC on InkHostTrace, maps the reported
mismatches back to scenarios (DESIGN §4.3, §4.4)."""
import json
import os
import re

import lib

FLOW_LOCAL = ["can", "text", "tags", "choices", "path"]
ALL_COMPS = ["can", "text", "tags", "choices", "errors", "warnings", "path", "vars", "visits", "save"]


def label(op):
    """label of a valid, state-changing operation = an edge of the reference system"""
    o = op.get("op")
    if o == "cont":
        return "c"
    if o == "turn":
        return "t"
    if o == "cont_async":
        return "c"
    if o == "choose":
        return "k%d" % op.get("i", 0)
    if "aslab" in op:
        return op["aslab"]
    key = {k: v for k, v in op.items() if k not in ("op", "on", "cls", "macro", "note", "lenient", "expectkey")}
    return "%s:%s" % (o, json.dumps(key, sort_keys=True))


def default_cls(op):
    o = op.get("op")
    if "cls" in op:
        return op["cls"]
    return {"cont": "cont", "choose": "choose", "new": "new", "drop": "drop", "save": "save", "load": "load",
            "reset": "reset", "switch_flow": "switch", "switch_default": "switchdef", "remove_flow": "remove",
            "cont_async": "slice", "observe": "reg", "bind": "reg", "unbind": "reg", "set_handler": "reg",
            "set_fallbacks": "reg", "remove_observer": "reg", "set_var": "setvar"}.get(o, "valid")


def canon_cb(cbs, keep_lines=False):
    """callbacks in canonical order: runs of observer notifications are an unordered batch; the
    harness's own 'lines delivered so far' counter is dropped unless the check is about timing"""
    out = []
    run = []
    for c in cbs or []:
        if not keep_lines and "lines" in c:
            c = {k: v for k, v in c.items() if k != "lines"}
        if c.get("k") == "obs":
            run.append(c)
        else:
            out += sorted(run, key=lambda x: json.dumps(x, sort_keys=True))
            run = []
            out.append(c)
    out += sorted(run, key=lambda x: json.dumps(x, sort_keys=True))
    return out


def collapse_turns(recs):
    """records of one `turn` macro become one record: the lines of the turn (non-empty, with their tags), the
    observation at the end of the turn, all callbacks — the granularity at which a host that loops
    `while can_continue { cont }` sees the story"""
    out = []
    cur = None
    for r in recs:
        if r.get("n", 0) <= 0:
            out.append(r)
            continue
        if (r.get("opfull") or {}).get("macro") == "turn":
            line = [(r.get("obs") or {}).get("text"), (r.get("obs") or {}).get("tags")]
            if cur is not None and cur["opi"] == r.get("opi") and cur["on"] == r.get("on", 0):
                m = cur["rec"]
            else:
                m = dict(r)
                m["op"] = "turn"
                m["opfull"] = {k: v for k, v in r["opfull"].items() if k not in ("macro",)}
                m["opfull"]["op"] = "turn"
                m["cb"] = []
                m["lines"] = []
                m.pop("val", None)
                cur = dict(opi=r.get("opi"), on=r.get("on", 0), rec=m)
                out.append(m)
            if isinstance(line[0], str) and line[0].strip():
                m["lines"].append(line)
            m["cb"] = m["cb"] + (r.get("cb") or [])
            if r.get("res") != "ok":
                m["res"] = r.get("res")
                for k in ("errkind", "errmsg", "panic"):
                    if k in r:
                        m[k] = r[k]
            if r.get("obs"):
                o = dict(r["obs"])
                o["text"] = m["lines"]
                o["tags"] = []
                m["obs"] = o
            m["live"] = r.get("live")
        else:
            cur = None
            if r.get("obs"):
                # between turns the "current text" is whatever the last continue left: an artefact of how
                # the turn was segmented into continues, not part of the turn-level observation
                r = dict(r)
                r["obs"] = dict(r["obs"], text=None, tags=None)
            out.append(r)
    return out


class Batch:
    def __init__(self, name):
        self.name = name
        self.intern = lib.Interner()
        self.nodes = []          # dict(kids, o, res, cb, val)
        self.events = []
        self.evmeta = []         # per event: (case key, record)
        self.cases = {}          # case key -> scenario info for replay
        self.rawmsgs = {}        # node -> (errors, warnings) of the base observation
        self.ncases = 0

    # ---------------------------------------------------------------- observation projection
    def proj(self, rec, cfg):
        obs = rec.get("obs")
        mask = cfg.get("mask")
        o = {}
        for k in ALL_COMPS:
            v = obs.get(k) if obs else None
            if v is not None and mask:
                v = mask(k, v)
            o[k] = self.intern(v) if v is not None else 0
        sv = (obs or {}).get("save") or {}
        try:
            fl = sv["flows"][sv["currentFlowName"]]["callstack"]["threads"]
            o["nthreads"] = len(fl)
            o["frames"] = max(len(t["callstack"]) for t in fl)
        except (KeyError, TypeError, ValueError):
            o["nthreads"] = 0
            o["frames"] = 0
        o["nerr"] = len((obs or {}).get("errors") or [])
        o["nwarn"] = len((obs or {}).get("warnings") or [])
        o["canB"] = bool(obs and obs.get("can"))
        o["nch"] = len(obs.get("choices", [])) if obs else 0
        pf = {}
        fv = cfg.get("flowvars")
        if fv and obs:
            for f, names in fv.items():
                vs = {n: (obs.get("vars") or {}).get(n) for n in names["vars"]}
                vi = {n: c for n, c in (obs.get("visits") or {}).items() if n.split(".")[0] in names["knots"]}
                pf[f] = self.intern([vs, vi])
        o["pf"] = pf
        o["cnt"] = {k[4:]: v.get("v", 0) for k, v in ((obs or {}).get("vars") or {}).items() if k.startswith("cnt_")}
        o["newmsgs"] = []
        return o

    def msgs_of(self, obs):
        return [("E", m) for m in (obs or {}).get("errors", [])], [("W", m) for m in (obs or {}).get("warnings", [])]

    def cbids(self, rec):
        return [self.intern(c) for c in canon_cb(rec.get("cb"))]

    def valid(self, rec):
        v = rec.get("val")
        if v is None and rec.get("res") == "err":
            v = ["err", rec.get("errkind"), rec.get("errmsg")]     # the error text is an observable too (C03)
        return self.intern(v) if v is not None else 0

    # ---------------------------------------------------------------- reference system
    def new_node(self, rec, cfg, parent=None):
        o = self.proj(rec, cfg)
        er, wa = self.msgs_of(rec.get("obs"))
        per, pwa = self.rawmsgs.get(parent, ([], [])) if parent else ([], [])
        new = (er[len(per):] if er[:len(per)] == per else er) + (wa[len(pwa):] if wa[:len(pwa)] == pwa else wa)
        o["newmsgs"] = [self.intern(list(m)) for m in new]
        self.nodes.append(dict(kids={}, o=o, res=rec.get("res", "ok"), cb=self.cbids(rec), val=self.valid(rec)))
        self.rawmsgs[len(self.nodes)] = (er, wa)
        return len(self.nodes)

    def add_base(self, recs, cfg, start=None):
        """recs: inkdrive call records of one base run (instance 0).  start: node to continue from
        (None: the first record must be `new`).  Returns (end node, [node after each record]) or
        raises Inconsistent when two base runs disagree (non-determinism: not this check's business)."""
        node = start
        trail = []
        for r in recs:
            if r.get("n", 0) <= 0:
                continue
            if r.get("res") in ("panic", "skipped", "abort", "badop") or "obs_panic" in r:
                raise BaseFault(r)
            if r["op"] == "new":
                key = ("root", json.dumps(cfg.get("rootkey", 0)))
                if node is None:
                    node = self.roots.get(key) if hasattr(self, "roots") else None
                    if node is None:
                        node = self.new_node(r, cfg)
                        if not hasattr(self, "roots"):
                            self.roots = {}
                        self.roots[key] = node
                trail.append(node)
                continue
            lab = label(r["opfull"])
            kids = self.nodes[node - 1]["kids"]
            if lab in kids:
                child = kids[lab]
                n = self.nodes[child - 1]
                po = self.proj(r, cfg)
                po["newmsgs"] = n["o"]["newmsgs"]
                if n["o"] != po or n["res"] != r.get("res"):
                    raise Inconsistent(r)
            else:
                child = self.new_node(r, cfg, parent=node)
                kids[lab] = child
            node = child
            trail.append(node)
        return node, trail

    def reset_roots(self):
        self.roots = {}

    # ---------------------------------------------------------------- probed runs
    def start_case(self, key, info, cmp=None, cmpall=None, pf=False, cmpcb=True, cmpval=True, cmpsave=True,
                   cmpres=True, chk11=False, chk12="", chk13="", probed=False, nopanic=False):
        self.ncases += 1
        self.cases[self.ncases] = dict(key=key, info=info)
        self.rich = bool(chk11 or chk12 or chk13)
        self.events.append(dict(cls="case", case=self.ncases, cmp=ALL_COMPS if cmp is None else cmp, cmpall=ALL_COMPS if cmpall is None else cmpall, pf=pf,
                                cmpcb=cmpcb, cmpval=cmpval, cmpsave=cmpsave, cmpres=cmpres, chk11=chk11, chk12=chk12,
                                chk13=chk13, probed=probed, nopanic=nopanic))
        self.evmeta.append((self.ncases, None))
        return self.ncases

    def add_probe(self, caseno, recs, cfg, root, froot=None):
        prev_obs = {}
        # marker lines that were delivered as lines of their own (not glued to a neighbour): only for those
        # does "the line preceding the call" exist as a separate line
        standalone = set()
        for r in recs:
            for ln in ([x[0] for x in r.get("lines", [])] if "lines" in r else [r.get("val")]):
                if isinstance(ln, str):
                    mm = re.match(r"^m(\d+)q \w+\n$", ln)
                    if mm:
                        standalone.add(int(mm.group(1)))
        for r in recs:
            if r.get("n", 0) <= 0:
                continue
            op = r["opfull"]
            cls = default_cls(op)
            has = bool(r.get("obs"))
            e = dict(cls=cls, case=caseno, i=r.get("on", 0), op=op.get("op"), lab=label(op), res=r.get("res", "ok"),
                     o=self.proj(r, cfg), cb=self.cbids(r), val=self.valid(r), k=op.get("i", 0) if op.get("op") == "choose" else 0,
                     slot=str(op.get("slot", "")), f=str(op.get("name", "")) if op.get("op") in ("switch_flow", "remove_flow") else "",
                     key=self.intern(["evalkey", op.get("name"), op.get("args")]) if op.get("op") == "eval_fn" else 0,
                     fin=bool(r.get("finished", not (r.get("obs") or {}).get("async", False))), expect=0, lenient=bool(op.get("lenient", False)),
                     root=root, froot=froot or {}, hasobs=has)
            e["wo"] = op.get("obs", 0) if op.get("op") in ("observe", "remove_observer") else 0
            e["wv"] = str(op.get("var", "")) if op.get("op") in ("observe", "remove_observer") else (
                str(op.get("name", "")) if op.get("op") == "set_var" else "")
            e["cbs"], e["vm"], e["ext"], e["msgs"] = [], {}, {}, []
            if self.rich:
                for c in r.get("cb") or []:
                    if c.get("k") == "obs":
                        e["cbs"].append(dict(k="obs", o=c["o"], var=c["var"], val=self.intern(c["val"]), seen=True))
                    elif c.get("k") == "ext":
                        a0 = (c.get("args") or [{}])[0].get("v")
                        seen = bool(c.get("seen", True)) or a0 not in standalone
                        e["cbs"].append(dict(k="ext", o=0, var=c["f"], val=0, seen=seen))
                        e["ext"][c["f"]] = e["ext"].get(c["f"], 0) + 1
                    else:
                        e["cbs"].append(dict(k="msg", o=0, var="", val=0, seen=True))
                        e["msgs"].append(self.intern([c.get("type"), c.get("text")]))
                e["vm"] = {k: self.intern(v) for k, v in ((r.get("obs") or {}).get("vars") or {}).items()}
            # C13: marker words of warning lines in the delivered text, and the temporaries that the messages seen by the
            # host (handler, error result, readable lists) complain about
            e["marks"], e["wvars"] = [], []
            if self.rich:
                texts = [x[0] for x in r.get("lines", [])] if "lines" in r else [r.get("val")]
                e["marks"] = sorted({int(k) for t in texts if isinstance(t, str) for k in re.findall(r"wrn(\d+)", t)})
                heard = [c.get("text", "") for c in (r.get("cb") or []) if c.get("k") not in ("obs", "ext")]
                heard += [r.get("errmsg") or ""] + list((r.get("obs") or {}).get("warnings") or []) + list((r.get("obs") or {}).get("errors") or [])
                e["wvars"] = sorted({int(k) for t in heard if isinstance(t, str) for k in re.findall(r"wt(\d+)", t)})
            e["ja"] = e["jb"] = 0
            if cls == "jumpreset" and r.get("obs") and prev_obs.get(e["i"]):
                tgt = op.get("path", "").split(".")[0]
                strip = lambda ob: {k: v for k, v in (ob.get("visits") or {}).items() if k.split(".")[0] != tgt}
                e["ja"] = self.intern(strip(prev_obs[e["i"]]))
                e["jb"] = self.intern(strip(r["obs"]))
            if r.get("obs"):
                prev_obs[e["i"]] = r["obs"]
            if "expectval" in op:
                e["expect"] = self.intern(op["expectval"])
            self.events.append(e)
            self.evmeta.append((caseno, r))

    # ---------------------------------------------------------------- TLC
    def run(self, wd, timeout=1200):
        """returns (mismatches, stats).  mismatch: dict(case, rule, comp, event, record, info)"""
        if not self.events:
            return [], dict(states=0, distinct=0, events=0, nodes=0, wall=0.0)
        trie = os.path.join(wd, "%s.trie.ndjson" % self.name)
        trace = os.path.join(wd, "%s.trace.ndjson" % self.name)
        with open(trie, "w") as f:
            for n in self.nodes:
                f.write(json.dumps(n) + "\n")
            if not self.nodes:
                f.write(json.dumps(dict(kids={}, o={}, res="ok", cb=[], val=0)) + "\n")
        with open(trace, "w") as f:
            for e in self.events:
                f.write(json.dumps(e) + "\n")
        res = lib.run_tlc("InkHostTrace", "InkHostTrace.cfg", wd, env_extra=dict(TRIE=trie, TRACE=trace),
                          workers=1, timeout=timeout, xmx="6g")
        out = res["out"]
        m = re.search(r'<<"CONSUMED", (\d+), (\d+), (\d+)>>', out)
        if not m or int(m.group(1)) != int(m.group(2)):
            tail = "\n".join(out.splitlines()[-40:])
            raise lib.ToolError("InkHostTrace did not consume the trace (%s):\n%s" % (self.name, tail))
        mism = []
        for line in lib.tlc_prints(out, "MISMATCH"):
            mm = re.match(r'<<"MISMATCH", (\d+), (\d+), "([^"]*)", "?([^">]*)"?>>', line)
            if not mm:
                raise lib.ToolError("unparsable mismatch line: " + line)
            l, caseno, rule, comp = int(mm.group(1)), int(mm.group(2)), mm.group(3), mm.group(4)
            cn, rec = self.evmeta[l - 1]
            mism.append(dict(case=self.cases[caseno]["key"], info=self.cases[caseno]["info"], rule=rule, comp=comp,
                             event=self.events[l - 1], record=rec, caseno=caseno))
        stats = dict(states=res["states"], distinct=res["distinct"], events=len(self.events), nodes=len(self.nodes),
                     wall=res["wall"])
        return mism, stats

    def explain(self, m):
        """human-readable expected/actual for a mismatch on an observation component"""
        comp = m["comp"]
        e = m["event"]
        out = dict(rule=m["rule"], component=comp)
        if comp in e.get("o", {}):
            out["actual"] = self.intern.value(e["o"][comp])
            # expected value: walk the reference system along the labels of this case (plain replays only)
            try:
                node = None
                for ev in self.events:
                    if ev.get("case") != m["caseno"] or ev.get("i", 0) != e.get("i", 0):
                        continue
                    if ev["cls"] == "new":
                        node = ev["root"]
                    elif ev["cls"] in ("valid", "cont", "choose", "reg", "setvar") and node:
                        node = self.nodes[node - 1]["kids"].get(ev["lab"])
                    elif ev["cls"] not in ("case", "skip", "regfree"):
                        node = None
                    if ev is e:
                        break
                if node:
                    out["expected"] = self.intern.value(self.nodes[node - 1]["o"][comp])
            except (KeyError, IndexError, TypeError):
                pass
        return out


class Inconsistent(Exception):
    pass


class BaseFault(Exception):
    pass
