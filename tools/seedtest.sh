#!/bin/bash
# usage: seedtest.sh <patch> <check> [<check>...]  — applies a seeded change to /repo, runs the checks, reverts
set -u
patch=$1; shift
cd /repo || exit 2
git diff --quiet || { echo "/repo not clean"; exit 2; }
git apply "$patch" || { echo "patch does not apply"; exit 2; }
cd /verif
for c in "$@"; do
  out=$(./check "$c" --tier "${TIER:-quick}" 2>&1); rc=$?
  echo "== $c rc=$rc  $(echo "$out" | grep -c '^VIOLATION') violation lines"
  echo "$out" | grep -E "fingerprints|TOOL ERROR|KNOWN" | head -5
done
git -C /repo checkout -- . 
git -C /repo status --short | head -3
