"""line-based delta debugging of an Ink source against a predicate evaluated through inkdrive"""
import json
import sys

import lib


def explore_pred(src, want, depth=4, max_paths=40, seed=1, flavour="debug"):
    sc = {"case": 0, "programs": [{"ink": src}], "seed": seed, "fuel": 20000, "obs": {"save": False},
          "explore": {"depth": depth, "max_paths": max_paths}}
    recs = lib.run_inkdrive([sc], lib.workdir("minimize"), name="m", flavour=flavour)
    return want(recs)


def ddmin(lines, test):
    n = 2
    while len(lines) >= 2:
        chunk = max(1, len(lines) // n)
        reduced = False
        for i in range(0, len(lines), chunk):
            cand = lines[:i] + lines[i + chunk:]
            if cand and test(cand):
                lines = cand
                n = max(n - 1, 2)
                reduced = True
                break
        if not reduced:
            if chunk == 1:
                break
            n = min(n * 2, len(lines))
    return lines


if __name__ == "__main__":
    src = open(sys.argv[1]).read()
    needle = sys.argv[2]

    def want(recs):
        return any(needle in json.dumps(r) for r in recs if r.get("res") == "panic" or "obs_panic" in r or needle in json.dumps(r.get("obs", {}).get("errors", "")))
    lines = src.split("\n")
    assert explore_pred(src, want), "predicate does not hold on the input"
    out = ddmin(lines, lambda ls: explore_pred("\n".join(ls), want))
    print("\n".join(out))
