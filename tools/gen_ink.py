"""Seeded generator of Ink source programs (DESIGN §5).

For the relational checks no oracle is needed: any program the compiler accepts will do.  The
generator keeps to forms whose compiled shape was inspected (diverts on their own lines, canonical
spacing) unless a weight switch says otherwise.  Termination: diverts only go forward (knot i ->
knot j > i) except from inside choice bodies, so every turn ends; step fuel is the backstop.

gen(seed, **weights) -> dict(src, globals, knots, functions, externals, flows, tunnels, lists)
"""
import random

WORDS = ["amber", "birch", "cedar", "delta", "ember", "fjord", "grove", "heron", "iris", "jade",
         "kelp", "lotus", "maple", "nadir", "onyx", "pearl", "quill", "raven", "slate", "thorn",
         "umber", "vale", "wren", "xenon", "yarrow", "zephyr"]

DEFAULT = dict(
    knots=3, stmts=4, depth=2, vars=3,
    choices=1.0, conds=1.0, seqs=1.0, glue=1.0, tags=1.0, tunnels=1.0, threads=0.6, functions=1.0,
    strings=1.0, lists=0.0, random=0.0, shuffles=0.0, externals=0.0, faults=0.0, flows=0,
    fallback=0.6, labels=0.6, readcounts=1.0, stitches=0.5, impure_functions=0.3,
    assign_after_newline=1.0, unicode=0.0, floats=0.0, hostvar=0, turns=1.0, msgs=0.0, ext_in_strings=0.0,
    ext_counters=0, retype=0.4, ext_markers=0, temps=1.0, seq_inline=0, ext_count=0,
)


class Gen:
    def __init__(self, seed, **kw):
        self.r = random.Random(seed)
        self.w = dict(DEFAULT)
        self.w.update(kw)
        self.word_n = 0
        self.ints = []
        self.bools = []
        self.strs = []
        self.lists = []       # (varname, listname)
        self.listdefs = []    # (name, [(item, value)])
        self.knots = []
        self.functions = []   # dict(name, params, pure, ret)
        self.externals = []   # dict(name, arity, spec)
        self.tunnels = []
        self.threads = []
        self.labels = []      # fully qualified labels available for read counts
        self.lines = []
        self.flow_knots = []

    # ------------------------------------------------------------------ helpers
    def p(self, weight):
        return self.r.random() < min(0.95, 0.35 * self.w.get(weight, 0))

    def word(self):
        self.word_n += 1
        base = self.r.choice(WORDS)
        if self.w["unicode"] and self.r.random() < 0.3 * self.w["unicode"]:
            base += self.r.choice(["é", "ß", "ж", "日", "𝄞", " x", "ñ"])
        return "%s%d" % (base, self.word_n)

    def words(self, n=None):
        n = n or self.r.randint(1, 3)
        return " ".join(self.word() for _ in range(n))

    # ------------------------------------------------------------------ expressions
    def int_expr(self, depth=2, temps=()):
        r = self.r
        leaves = list(self.ints) + [t for t in temps]
        if depth <= 0 or r.random() < 0.35:
            c = r.random()
            if leaves and c < 0.55:
                return r.choice(leaves)
            if c < 0.65 and self.knots and self.w["readcounts"]:
                return r.choice(self.knots + self.labels) if self.labels and r.random() < 0.4 else r.choice(self.knots)
            return str(r.randint(0, 9))
        c = r.random()
        a = self.int_expr(depth - 1, temps)
        b = self.int_expr(depth - 1, temps)
        if self.externals and r.random() < 0.12 * self.w["externals"]:
            # an external call as the RIGHT operand / as an argument of another call: other values are already
            # on the evaluation stack when its arguments are popped
            e = r.choice(self.externals)
            args = [self.int_expr(0, temps) for _ in range(e["arity"])]
            if r.random() < 0.3:
                e2 = r.choice(self.externals)
                args[-1] = "%s(%s)" % (e2["name"], ", ".join(str(r.randint(1, 9)) for _ in range(e2["arity"])))
            call = "%s(%s)" % (e["name"], ", ".join(args))
            return "(%s %s %s)" % (a, r.choice(["+", "-"]), call)
        if c < 0.35:
            return "(%s + %s)" % (a, b)
        if c < 0.55:
            return "(%s - %s)" % (a, b)
        if c < 0.7:
            return "(%s * %s)" % (a, r.randint(0, 4))
        if c < 0.78 and self.w["faults"]:
            return "(%s %s %s)" % (a, r.choice(["/", "%"]), b)
        if c < 0.82:
            return "(%s mod %s)" % (a, r.randint(2, 5)) if False else "(%s %% %s)" % (a, r.randint(2, 5))
        if c < 0.88:
            return "MIN(%s, %s)" % (a, b) if r.random() < 0.5 else "MAX(%s, %s)" % (a, b)
        if c < 0.93 and self.functions:
            f = r.choice([f for f in self.functions if f["ret"] == "int"] or [None])
            if f:
                return "%s(%s)" % (f["name"], ", ".join(self.int_expr(0, temps) for _ in f["params"]))
        if c < 0.96 and self.w["random"]:
            return "RANDOM(%d, %d)" % (r.randint(0, 3), r.randint(4, 9))
        if c < 0.98 and self.externals:
            e = r.choice(self.externals)
            return "%s(%s)" % (e["name"], ", ".join(self.int_expr(0, temps) for _ in range(e["arity"])))
        return "(%s + %s)" % (a, b)

    def bool_expr(self, depth=2, temps=()):
        r = self.r
        c = r.random()
        if depth <= 0 or c < 0.2:
            if self.bools and r.random() < 0.6:
                return r.choice(self.bools)
            return r.choice(["true", "false"])
        if c < 0.6:
            op = r.choice(["==", "!=", "<", ">", "<=", ">="])
            return "(%s %s %s)" % (self.int_expr(depth - 1, temps), op, self.int_expr(depth - 1, temps))
        if c < 0.75:
            return "(%s %s %s)" % (self.bool_expr(depth - 1, temps), r.choice(["&&", "||", "and", "or"]), self.bool_expr(depth - 1, temps))
        if c < 0.85:
            return "not %s" % self.bool_expr(depth - 1, temps)
        if c < 0.92 and self.knots and self.w["readcounts"]:
            return r.choice(self.knots + self.labels)
        if self.strs and self.w["strings"]:
            return '(%s %s "%s")' % (r.choice(self.strs), r.choice(["==", "!=", "?"]), r.choice(["a", "b", "ab", ""]))
        return "(%s > %d)" % (self.int_expr(depth - 1, temps), r.randint(0, 5))

    def str_expr(self, temps=()):
        r = self.r
        c = r.random()
        if self.strs and c < 0.4:
            return r.choice(self.strs)
        if c < 0.7:
            return '"%s"' % r.choice(["a", "b", "ab", "c d", ""])
        if self.strs:
            return '(%s + "%s")' % (r.choice(self.strs), r.choice(["a", "b", "z"]))
        return '"%s"' % self.word()

    def list_expr(self):
        r = self.r
        if not self.lists:
            return "()"
        v, ln = r.choice(self.lists)
        items = dict(self.listdefs)[ln]
        it = r.choice(items)[0]
        c = r.random()
        if c < 0.3:
            return "%s + %s" % (v, it)
        if c < 0.5:
            return "%s - %s" % (v, it)
        if c < 0.6:
            return "LIST_ALL(%s)" % v
        if c < 0.7:
            return "LIST_INVERT(%s)" % v
        if c < 0.8:
            return "(%s, %s)" % (it, r.choice(items)[0])
        if c < 0.9 and len(self.lists) > 1:
            v2, _ = r.choice(self.lists)
            return "%s %s %s" % (v, r.choice(["+", "-", "^"]), v2)
        return "()"

    # ------------------------------------------------------------------ inline text pieces
    def inline(self, temps=()):
        """one inline piece of a text line"""
        r = self.r
        c = r.random()
        if c < 0.45:
            return self.words()
        if c < 0.6:
            return "{%s}" % self.int_expr(1, temps)
        if c < 0.68 and self.p("conds"):
            return "{%s: %s | %s}" % (self.bool_expr(1, temps), self.word(), self.word())
        if c < 0.78 and self.p("seqs"):
            kind = r.choice(["", "&", "!"])
            if self.w["shuffles"] and r.random() < 0.5 * self.w["shuffles"]:
                kind = "~"
            return "{%s%s}" % (kind, "|".join(self.word() for _ in range(r.randint(2, 3))))
        if c < 0.84 and self.strs and self.w["strings"]:
            return "{%s}" % self.str_expr(temps)
        if c < 0.88 and self.functions:
            f = r.choice(self.functions)
            return "{%s(%s)}" % (f["name"], ", ".join(self.int_expr(0, temps) for _ in f["params"]))
        if self.lists and self.w["random"] and r.random() < 0.08 * self.w["random"] * self.w["lists"]:
            v, ln = r.choice(self.lists + [("lmix", None)] * 2 if any(x[0] == "lmix" for x in self.lists) else self.lists)
            return "{%s(%s)}" % (r.choice(["LIST_RANDOM", "LIST_RANDOM", "LIST_MIN", "LIST_MAX"]), v)
        if c < 0.91 and self.lists and self.w["lists"]:
            c2 = r.random()
            v, ln = r.choice(self.lists)
            if c2 < 0.3:
                return "{%s}" % v
            if c2 < 0.5:
                return "{LIST_COUNT(%s)}" % v
            if c2 < 0.65:
                return "{LIST_MIN(%s)}" % v
            if c2 < 0.8:
                return "{LIST_MAX(%s)}" % v
            if c2 < 0.9 and self.w["random"]:
                return "{LIST_RANDOM(%s)}" % v
            return "{%s}" % self.list_expr()
        if c < 0.94 and self.w["readcounts"]:
            c2 = r.random()
            if c2 < 0.4 and self.knots and self.w["turns"]:
                return "{TURNS_SINCE(-> %s)}" % r.choice(self.knots)
            if c2 < 0.7 or not self.w["turns"]:
                return "{CHOICE_COUNT()}"
            return "{TURNS()}"
        if c < 0.97 and self.externals:
            e = r.choice(self.externals)
            return "{%s(%s)}" % (e["name"], ", ".join(self.int_expr(0, temps) for _ in range(e["arity"])))
        return self.words(1)

    def text_line(self, temps=(), allow_glue=True, simple=False):
        r = self.r
        if simple:
            # inside a multi-line sequence branch: no inline conditional or alternative (this compiler
            # mis-translates `{c: a | b}` there into code that underflows the evaluation stack or loops)
            parts = [self.word()] + [r.choice([self.words(), "{%s}" % self.int_expr(1, temps)]) for _ in range(r.randint(0, 2))]
        else:
            parts = [self.word()] + [self.inline(temps) for _ in range(r.randint(0, 2))]
        s = " ".join(parts)
        if allow_glue and self.p("glue") and r.random() < 0.4:
            s = s + " <>" if r.random() < 0.6 else "<> " + s
        if self.p("tags") and r.random() < 0.5:
            s += " # " + self.word()
            if r.random() < 0.3:
                s += " # " + self.word()
        return s

    # ------------------------------------------------------------------ statements
    def stmts(self, ind, depth, temps, n=None, in_choice=False, in_function=False, knot_index=0):
        """returns list of source lines (a weave fragment that flows out of its end)"""
        r = self.r
        out = []
        n = n if n is not None else r.randint(1, self.w["stmts"])
        pad = "  " * ind
        for _ in range(n):
            c = r.random()
            if c < 0.34:
                out.append(pad + self.text_line(temps))
            elif c < 0.48:
                if self.ints and r.random() < 0.6:
                    out.append(pad + "~ %s = %s" % (r.choice(self.ints), self.int_expr(2, temps)))
                elif self.bools and r.random() < 0.5:
                    out.append(pad + "~ %s = %s" % (r.choice(self.bools), self.bool_expr(2, temps)))
                elif self.strs and self.w["strings"]:
                    out.append(pad + "~ %s = %s" % (r.choice(self.strs), self.str_expr(temps)))
                elif self.lists and self.w["lists"]:
                    out.append(pad + "~ %s = %s" % (r.choice(self.lists)[0], self.list_expr()))
                else:
                    out.append(pad + self.text_line(temps))
                if self.w["assign_after_newline"] and r.random() < 0.5:
                    out.append(pad + self.text_line(temps))
            elif c < 0.54 and not in_function and ind == 0 and r.random() < self.w["temps"]:
                t = "t%d" % (len(temps) + 1)
                out.append(pad + "~ temp %s = %s" % (t, self.int_expr(1, temps)))
                temps = tuple(temps) + (t,)
                if self.w["temps"] > 1:
                    out.append(pad + "%s {%s}" % (self.word(), t))
                    out.append(pad + "%s {%s + 1}" % (self.word(), t))
            elif c < 0.64 and self.p("conds") and depth > 0:
                out.append(pad + "{ %s:" % self.bool_expr(2, temps))
                out += self.stmts(ind + 1, depth - 1, temps, r.randint(1, 2), in_choice, in_function, knot_index)[0]
                if r.random() < 0.6:
                    out.append(pad + "- else:")
                    out += self.stmts(ind + 1, depth - 1, temps, r.randint(1, 2), in_choice, in_function, knot_index)[0]
                out.append(pad + "}")
            elif c < 0.7 and self.tunnels and self.p("tunnels") and not in_function:
                out.append(pad + "-> %s ->" % r.choice(self.tunnels))
            elif c < 0.75 and self.functions and self.p("functions"):
                f = r.choice(self.functions)
                out.append(pad + "~ %s(%s)" % (f["name"], ", ".join(self.int_expr(0, temps) for _ in f["params"])))
            elif c < 0.78 and self.externals and not in_function:
                e = r.choice(self.externals)
                call = "%s(%s)" % (e["name"], ", ".join(str(r.randint(0, 5)) for _ in range(e["arity"])))
                if self.w["ext_in_strings"] and ind == 0 and r.random() < 0.5 * self.w["ext_in_strings"]:
                    self.sx_n = getattr(self, "sx_n", 0) + 1
                    t = "sx%d" % self.sx_n
                    out.append(pad + '~ temp %s = "%s {%s}"' % (t, self.word(), call))
                    out.append(pad + "%s {%s}" % (self.word(), t))
                elif self.w["ext_markers"]:
                    # the call site directly follows a marker line; the marker id is the first argument
                    self.marker_n = getattr(self, "marker_n", 700000) + 1
                    k = self.marker_n
                    out.append(pad + "m%dq %s" % (k, self.word()))
                    out.append(pad + "~ %s(%s)" % (e["name"], ", ".join([str(k)] + [str(r.randint(0, 5)) for _ in range(e["arity"] - 1)])))
                else:
                    out.append(pad + "~ " + call)
            elif c < 0.82 and self.p("seqs") and depth > 0 and not in_function:
                kind = r.choice(["stopping", "cycle", "once"])
                if self.w["shuffles"] and r.random() < 0.6 * self.w["shuffles"]:
                    kind = r.choice(["shuffle", "shuffle once", "stopping shuffle"])
                out.append(pad + "{ %s:" % kind)
                for _ in range(r.randint(2, 3)):
                    out.append(pad + "  - " + self.text_line(temps, allow_glue=False, simple=not self.w.get("seq_inline", 0)))
                out.append(pad + "}")
            elif c < 0.9 and self.w["msgs"] and ind == 0 and not in_function and r.random() < 0.5 * self.w["msgs"]:
                # a warning: a temporary read although its declaration was never executed
                self.wt_n = getattr(self, "wt_n", 0) + 1
                out.append(pad + "{ false:")
                out.append(pad + "  ~ temp wt%d = 0" % self.wt_n)
                out.append(pad + "}")
                # (the marker word wrn<N> says, to whoever reads the delivered line, that the warning about wt<N> is due)
                out.append(pad + "wrn%d {wt%d} %s" % (self.wt_n, self.wt_n, self.word()))
                if r.random() < 0.4:
                    out.append(pad + "<> %s" % self.word())       # the line end is taken back by glue
            elif c < 0.86 and self.w["retype"] and r.random() < self.w["retype"] and not in_function:
                # a value of another type that is numerically equal: int <-> float <-> bool
                k = r.random()
                if k < 0.4 and self.ints:
                    v = r.choice(self.ints)
                    out.append(pad + "~ %s = FLOAT(%s)" % (v, v))
                elif k < 0.6 and self.ints:
                    v = r.choice(self.ints)
                    out.append(pad + "~ %s = (%s == 1)" % (v, v))
                elif k < 0.8 and self.bools:
                    v = r.choice(self.bools)
                    out.append(pad + "~ %s = INT(%s)" % (v, v))
                elif self.ints:
                    v = r.choice(self.ints)
                    out.append(pad + "~ %s = INT(%s)" % (v, v))
                out.append(pad + self.text_line(temps))
            else:
                out.append(pad + self.text_line(temps))
        return out, temps

    def choice_block(self, level, depth, temps, knot, knot_index, targets):
        """a block of choices at weave `level` followed by a gather; returns lines"""
        r = self.r
        out = []
        star = lambda sticky: " ".join(("+" if sticky else "*") * level) if False else (("+ " if sticky else "* ") * level).strip()
        nch = r.randint(1, 3)
        have_fallback = False
        for ci in range(nch):
            sticky = r.random() < 0.3
            mark = star(sticky)
            line = "  " * (level - 1) + mark + " "
            if self.p("labels") and r.random() < 0.4:
                lab = "c%d_%d" % (knot_index, len(self.labels))
                line += "(%s) " % lab
                self._pending_labels.append("%s.%s" % (knot, lab))
            if self.p("conds") and r.random() < 0.35:
                line += "{%s} " % self.bool_expr(1, temps)
            form = r.random()
            if self.externals and self.w["ext_in_strings"] and r.random() < 0.3 * self.w["ext_in_strings"]:
                e = r.choice(self.externals)
                line += "[%s {%s(%s)}]" % (self.word(), e["name"], ", ".join(str(r.randint(0, 5)) for _ in range(e["arity"])))
            elif form < 0.5:
                line += "[%s]" % self.words(r.randint(1, 2))
            elif form < 0.75:
                line += self.words(r.randint(1, 2))
            else:
                line += "%s [%s] %s" % (self.word(), self.word(), self.word())
            if self.p("tags") and r.random() < 0.25:
                line += " # " + self.word()
            out.append(line)
            body, _ = self.stmts(level, depth - 1, temps, r.randint(0, 2), in_choice=True, knot_index=knot_index)
            out += body
            if depth > 1 and level < 2 and r.random() < 0.3:
                out += self.choice_block(level + 1, depth - 1, temps, knot, knot_index, targets)
            if self.w["msgs"] and r.random() < 0.25 * self.w["msgs"]:
                pad2 = "  " * level
                if r.random() < 0.5:
                    # a warning in the very continue that then runs into the error (the error is met while
                    # looking ahead past the end of the line that raised the warning)
                    self.wt_n = getattr(self, "wt_n", 0) + 1
                    out.append(pad2 + "{ false:")
                    out.append(pad2 + "  ~ temp wt%d = 0" % self.wt_n)
                    out.append(pad2 + "}")
                    c3 = r.random()
                    if c3 < 0.4 and self.ints:
                        # ... or the error is raised on the same line, after the warning
                        v = r.choice(self.ints)
                        out.append(pad2 + "%s {wt%d} {7 / (%s - %s)} %s" % (self.word(), self.wt_n, v, v, self.word()))
                        out.append(pad2 + self.word())
                    elif c3 < 0.7:
                        out.append(pad2 + "~ dv = 0")
                        out.append(pad2 + "wrn%d {wt%d}" % (self.wt_n, self.wt_n))
                        out.append(pad2 + "-> dv")
                    else:
                        out.append(pad2 + "wrn%d {wt%d}" % (self.wt_n, self.wt_n))
                        out.append(pad2 + "->->")
                elif r.random() < 0.5:
                    out.append(pad2 + "~ dv = 0")
                    out.append(pad2 + self.word())
                    out.append(pad2 + "-> dv")
                else:
                    out.append(pad2 + self.word())
                    out.append(pad2 + "->->")
            elif r.random() < 0.35 and targets:
                out.append("  " * level + "-> " + r.choice(targets))
        if self.p("fallback") and r.random() < 0.5:
            sticky = r.random() < 0.5
            out.append("  " * (level - 1) + star(sticky) + " ->")
            have_fallback = True
            body, _ = self.stmts(level, 0, temps, r.randint(0, 1), in_choice=True, knot_index=knot_index)
            out += body
        g = "  " * (level - 1) + ("- " * level).strip() + " "
        if self.p("labels") and r.random() < 0.4:
            lab = "g%d_%d" % (knot_index, len(self.labels) + len(self._pending_labels))
            g += "(%s) " % lab
            self._pending_labels.append("%s.%s" % (knot, lab))
        out.append(g + self.text_line(temps, allow_glue=False))
        return out

    # ------------------------------------------------------------------ whole program
    def program(self):
        r = self.r
        w = self.w
        L = self.lines
        nv = w["vars"]
        for i in range(nv):
            self.ints.append("v%d" % i)
        for i in range(max(1, nv // 2)):
            self.bools.append("b%d" % i)
        if w["strings"]:
            for i in range(max(1, nv // 2)):
                self.strs.append("s%d" % i)
        if w["lists"]:
            nl = r.randint(2, 3)
            for i in range(nl):
                name = "L%d" % i
                items = []
                val = r.randint(1, 2)
                for j in range(r.randint(2, 4)):
                    items.append(("%s%s" % ("abc"[i], "pqrs"[j]), val))
                    val += r.randint(1, 2)
                self.listdefs.append((name, items))
        for (name, items) in self.listdefs:
            on = [it for it in items if r.random() < 0.4]
            L.append("LIST %s = %s" % (name, ", ".join(("(%s = %d)" if it in on else "%s = %d") % it for it in items)))
        if w["hostvar"]:
            L.append("VAR hostvar = 0")
        if w["msgs"]:
            L.append("VAR dv = -> k0")
        for v in self.ints:
            L.append("VAR %s = %d" % (v, r.randint(0, 5) if r.random() < 0.8 else -r.randint(1, 7)))
        for v in self.bools:
            L.append("VAR %s = %s" % (v, r.choice(["true", "false"])))
        for v in self.strs:
            L.append('VAR %s = "%s"' % (v, r.choice(["a", "b", "ab", ""])))
        self.list_inits = []
        for i, (name, items) in enumerate(self.listdefs):
            v = "lv%d" % i
            self.lists.append((v, name))
            c = r.random()
            if c < 0.3:
                L.append("VAR %s = ()" % v)
            elif c < 0.7:
                # (this compiler mis-translates a multi-item list literal in a VAR initialiser, so the
                # relational checks initialise such variables by assignment at the top of the first knot)
                L.append("VAR %s = ()" % v)
                self.list_inits.append("~ %s = (%s)" % (v, ", ".join(it for it, _ in items if r.random() < 0.5) or items[0][0]))
            else:
                L.append("VAR %s = %s" % (v, items[0][0]))
        if w["lists"] and len(self.listdefs) >= 2:
            # a multi-origin list variable whose items have equal values
            a = self.listdefs[0][1][0][0]
            b = self.listdefs[1][1][0][0]
            L.append("VAR lmix = ()")
            self.list_inits.append("~ lmix = (%s, %s)" % (a, b))
            self.lists.append(("lmix", self.listdefs[0][0]))
        # externals
        if w["externals"]:
            for i in range(max(w["ext_count"], r.randint(1, 2))):
                ar = r.randint(1, 3) if not w["ext_markers"] else r.randint(1, 2)
                self.externals.append(dict(name="ext%d" % i, arity=ar,
                                           spec=dict(impl="lin", coef=[100, 10, 1][3 - ar:], add=100 if ar == 1 else 0)))
                L.append("EXTERNAL ext%d(%s)" % (i, ", ".join("abc"[k] for k in range(ar))))
                if w["ext_counters"]:
                    L.append("VAR cnt_ext%d = 0" % i)
        nk = w["knots"]
        names = ["k%d" % i for i in range(nk)]
        nfun = r.randint(1, 2) if w["functions"] else 0
        ntun = r.randint(1, 2) if w["tunnels"] else 0
        nthr = (1 if r.random() < 0.6 else 2) if w["threads"] and r.random() < 0.7 * w["threads"] + 0.3 else 0
        # functions first (so that expressions can call them); only earlier functions are called
        fun_src = []
        for i in range(nfun):
            params = ["a", "b"][: r.randint(1, 2)]
            pure = r.random() >= 0.35 * w["impure_functions"]
            f = dict(name="fn%d" % i, params=params, pure=pure, ret="int")
            src = ["== function fn%d(%s) ==" % (i, ", ".join(params))]
            if r.random() < 0.6:
                src.append(self.word() + " {a}")
                if r.random() < 0.4:
                    src.append(self.word())
            if not pure and self.ints:
                src.append("~ %s = %s + 1" % (r.choice(self.ints), r.choice(self.ints)))
            if r.random() < 0.5:
                src.append("{ a > 2:")
                src.append("  ~ return a - 1")
                src.append("}")
            src.append("~ return %s" % ("a + 1" if len(params) == 1 else "a * 10 + b"))
            fun_src.append(src)
            self.functions.append(f)
        self.knots = list(names)
        self.tunnels = ["tun%d" % i for i in range(ntun)]
        self.threads = ["thr%d" % i for i in range(nthr)]
        L.append("-> k0")
        self._pending_labels = []
        for ki, k in enumerate(names):
            L.append("== %s ==" % k)
            if ki == 0:
                L += getattr(self, "list_inits", [])
            temps = ()
            targets = names[ki + 1:] or []
            back = names[: ki + 1]
            body, temps = self.stmts(0, w["depth"], temps, knot_index=ki)
            L += body
            if (self.threads or self.tunnels) and r.random() < 0.35 * w["choices"]:
                # a choice inside a conditional block: the flow goes on after generating it, so the choice stays
                # pending while threads and tunnels below produce further lines
                L.append("{ %s:" % r.choice(["true", "%s >= 0" % self.ints[0] if self.ints else "true"]))
                L.append("  * [%s]" % self.word())
                L.append("    " + self.text_line(temps, allow_glue=False))
                L.append("    -> %s" % (r.choice(targets) if targets else "END"))
                L.append("}")
                if self.tunnels and r.random() < 0.5:
                    L.append("-> %s ->" % r.choice(self.tunnels))
            if self.threads and self.p("threads") and r.random() < 0.6:
                L.append("<- %s" % r.choice(self.threads))
                if r.random() < 0.4:
                    L.append("<- %s" % r.choice(self.threads))
                if r.random() < 0.5:
                    L.append(self.text_line(temps))
            nblocks = r.randint(0, 2) if self.p("choices") or ki == 0 else 0
            for _ in range(nblocks):
                L += self.choice_block(1, w["depth"], temps, k, ki, targets + (back if r.random() < 0.4 else []))
                more, temps = self.stmts(0, 1, temps, r.randint(0, 2), knot_index=ki)
                L += more
            self.labels += self._pending_labels
            self._pending_labels = []
            if w["stitches"] and r.random() < 0.4 * w["stitches"]:
                st = "st%d" % ki
                L.append("-> %s.%s" % (k, st))
                L.append("= %s" % st)
                more, _ = self.stmts(0, 1, (), r.randint(1, 2), knot_index=ki)
                L += more
                self.knots.append("%s.%s" % (k, st))
            if targets:
                L.append("-> %s" % r.choice(targets))
            else:
                L.append("-> END" if r.random() < 0.7 else "-> DONE")
        for i, t in enumerate(self.tunnels):
            L.append("== %s ==" % t)
            body, _ = self.stmts(0, 1, (), r.randint(1, 2), in_function=False, knot_index=100 + i)
            # no nested tunnels: filter
            L += [b for b in body if "->" not in b.replace("->->", "")]
            if r.random() < 0.3 * w["choices"]:
                L.append("* [%s]" % self.word())
                L.append("  " + self.word())
                L.append("- " + self.word())
            L.append("->->")
        for i, t in enumerate(self.threads):
            L.append("== %s ==" % t)
            for _ in range(r.randint(1, 3)):
                L.append(self.text_line(()))
            if self.tunnels and r.random() < 0.5:
                L.append("-> %s ->" % r.choice(self.tunnels))
                L.append(self.text_line(()))
            L.append("* [%s]" % self.word())
            L.append("  " + self.text_line(()))
            L.append("  -> %s" % names[-1])
            if r.random() < 0.5:
                L.append("+ [%s]" % self.word())
                L.append("  " + self.text_line(()))
                L.append("  -> %s" % names[-1])
            if r.random() < 0.5:
                for _ in range(r.randint(1, 2)):
                    L.append(self.text_line(()))
            L.append("-> DONE")
        # flows: extra disjoint entry knots using their own variables
        for fi in range(w["flows"]):
            fv = "fv%d" % fi
            L.insert(0, "VAR %s = 0" % fv)
            fk = "flow%d" % fi
            self.flow_knots.append(dict(knot=fk, var=fv))
            L.append("== %s ==" % fk)
            L.append("~ temp t1 = %d" % (7 + fi))
            L.append("%s {t1}" % self.word())
            for j in range(r.randint(2, 3)):
                L.append("%s {%s}" % (self.word(), fv))
                if r.random() < 0.6:
                    L.append("~ %s = %s + %d" % (fv, fv, j + 1))
            L.append("* [%s]" % self.word())
            L.append("  %s {%s}" % (self.word(), fv))
            L.append("  ~ %s = %s + 10" % (fv, fv))
            L.append("+ [%s]" % self.word())
            L.append("  %s" % self.word())
            L.append("- %s {%s}" % (self.word(), fv))
            L.append("* [%s]" % self.word())
            L.append("  %s" % self.word())
            L.append("* [%s]" % self.word())
            L.append("  %s <>" % self.word())
            L.append("- %s" % self.word())
            L.append("-> DONE")
        for src in fun_src:
            L += src
        for e in self.externals:
            # Ink fallback with the same meaning as the host implementation
            ps = ["a", "b", "c"][: e["arity"]]
            L.append("== function %s(%s) ==" % (e["name"], ", ".join(ps)))
            if w["ext_counters"]:
                L.append("~ cnt_%s = cnt_%s + 1" % (e["name"], e["name"]))
            if e["arity"] == 1:
                L.append("~ return a + 100")
            elif e["arity"] == 2:
                L.append("~ return a * 10 + b")
            else:
                L.append("~ return a * 100 + b * 10 + c")
        return dict(
            src="\n".join(L) + "\n",
            globals=self.ints + self.bools + self.strs + [v for v, _ in self.lists],
            ints=self.ints, bools=self.bools, strs=self.strs,
            knots=self.knots, functions=self.functions, externals=self.externals,
            flows=self.flow_knots, tunnels=self.tunnels, lists=self.listdefs, labels=self.labels,
        )


def gen(seed, **kw):
    return Gen(seed, **kw).program()


if __name__ == "__main__":
    import sys
    seed = int(sys.argv[1]) if len(sys.argv) > 1 else 1
    kw = {}
    for a in sys.argv[2:]:
        k, v = a.split("=")
        kw[k] = float(v) if "." in v else int(v)
    print(gen(seed, **kw)["src"])
