#!/bin/bash
# usage: confirm_seed.sh <worktree> <patch> <demo.rs> <outdir-name>
# confirms in a scratch worktree: suite passes with the change; demo fails with it and passes without; stores under /verif/seeded
wt=$1; patch=$2; demo=$3; name=$4
cd "$wt" || exit 2
git checkout -q -- . ; git clean -fdq conformance-tests/tests
git apply "$patch" || { echo "$name: patch does not apply"; exit 2; }
suite=$(cargo test --workspace --no-fail-fast --offline 2>&1 | grep -E "^test result" | awk '{p+=$4; f+=$6} END {print p" passed "f" failed"}')
cp "$demo" conformance-tests/tests/seed_demo.rs
with=$(cargo test -p conformance-tests --test seed_demo --offline $CONFIRM_ARGS 2>&1 | grep -E "^test result" | tail -1)
git checkout -q -- .
without=$(cargo test -p conformance-tests --test seed_demo --offline $CONFIRM_ARGS 2>&1 | grep -E "^test result" | tail -1)
rm -f conformance-tests/tests/seed_demo.rs
echo "$name | suite with change: $suite | demo with change: $with | demo without: $without"
mkdir -p /verif/seeded/$name
cp "$patch" /verif/seeded/$name/patch.diff
cp "$demo" /verif/seeded/$name/demo.rs
echo "suite with change: $suite; demo with change: $with; demo without change: $without" > /verif/seeded/$name/confirm.txt
