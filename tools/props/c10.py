"""C10 — flows are independent except for global variables and counts.

Programs are generated with two extra entry knots using their own variables (mutually disjoint,
error-free flow scripts) beside the main story.  Base runs: each flow alone.  TLC enumerates every
interleaving of the flows' operations (spec/FlowSched.tla); each schedule is replayed on the real
runtime — optionally with save + load into a fresh twin, or remove_flow, at a point of the schedule —
and InkHostTrace validates it against InkHostAbs with one position per flow: what the current flow
shows equals its solo run, every flow's variables and counts equal that flow's solo run."""
import concurrent.futures
import json
import random
import time

import common
import lib
import relational
import runner

FA, FB, FD = "fa", "fb", "DEFAULT_FLOW"


def flow_prelude(name, knot):
    return [{"op": "switch_flow", "name": name}, {"op": "choose_path", "path": knot, "reset": True}]


class SchedCache:
    """lazily asks TLC for the interleavings of the operation counts that actually occur"""

    def __init__(self, wd, design):
        import threading
        self.wd, self.design, self.d, self.lock = wd, design, {}, threading.Lock()

    def __getitem__(self, key):
        with self.lock:
            if key not in self.d:
                k = tuple(key) + (0,) * (3 - len(key))
                s, res = lib.flow_schedules(k[0], k[1], k[2], self.wd)
                self.d[key] = s
                self.design["states"] += res["states"]
                self.design["distinct"] += res["distinct"]
            return self.d[key]

    def values(self):
        return self.d.values()


def chunk_run(args):
    idx, progs, tier, seed, wd, scheds2, scheds3 = args
    r = random.Random(seed * 7919 + idx)
    quick = tier == "quick"
    batch = relational.Batch("C10-%d" % idx)
    kw = dict(depth=2, max_paths=4, name="base%d" % idx)
    exD, cD = common.explore(progs, wd, **dict(kw, name="baseD%d" % idx))
    exA, _ = common.explore(progs, wd, prelude=lambda p: flow_prelude(FA, p["flows"][0]["knot"]), **dict(kw, name="baseA%d" % idx))
    exB, _ = common.explore(progs, wd, prelude=lambda p: flow_prelude(FB, p["flows"][1]["knot"]), **dict(kw, name="baseB%d" % idx))
    byid = lambda exs: {e.prog["id"]: e for e in exs if not e.fault}
    dD, dA, dB = byid(exD), byid(exA), byid(exB)
    cases = []
    dropped = 0
    for p in progs:
        pid = p["id"]
        if pid not in dD or pid not in dA or pid not in dB:
            dropped += 1
            continue
        # error-free flow scripts only (an unhandled error halts the whole story, see C13)
        def clean(ex):
            return {k: v for k, v in ex.paths.items()
                    if not any((x.get("obs") or {}).get("errors") or x.get("res") == "err" for x in v["recs"])}
        pD, pA, pB = clean(dD[pid]), clean(dA[pid]), clean(dB[pid])
        if not pD or not pA or not pB:
            dropped += 1
            continue
        main_vars = [g for g in dD[pid].header["globals"] if g not in (p["flows"][0]["var"], p["flows"][1]["var"])]
        main_knots = [c for c in dD[pid].header["containers"] if c.split(".")[0] not in (p["flows"][0]["knot"], p["flows"][1]["knot"])]
        cfg = dict(flowvars={
            FD: dict(vars=main_vars, knots=set(k.split(".")[0] for k in main_knots)),
            FA: dict(vars=[p["flows"][0]["var"]], knots={p["flows"][0]["knot"]}),
            FB: dict(vars=[p["flows"][1]["var"]], knots={p["flows"][1]["knot"]})})
        batch.reset_roots()
        try:
            trails = {}
            for tag, ex in (("D", dD[pid]), ("A", dA[pid]), ("B", dB[pid])):
                tr = {}
                for path in sorted(ex.paths, key=lambda t: (len(t), t)):
                    info = ex.paths[path]
                    if path:
                        _e, t = batch.add_base(info["new"], cfg, start=tr[path[:-1]][-1])
                        tr[path] = tr[path[:-1]] + t
                    else:
                        _e, t = batch.add_base(info["new"], cfg)
                        tr[path] = t
                trails[tag] = tr
        except (relational.Inconsistent, relational.BaseFault):
            dropped += 1
            continue
        root = trails["D"][()][0]
        froot = {FA: trails["A"][()][1], FB: trails["B"][()][1]}
        # operation sequences per flow: after the switch (A, B) / after new (D)
        def seqs(ex_paths, skip, maxlen):
            out = []
            for path, info in ex_paths.items():
                ops = info["ops"][skip:]
                if ops:
                    out.append(ops[:maxlen])
            return out
        sA, sB, sD = seqs(pA, 2, 4), seqs(pB, 2, 4), seqs(pD, 1, 3)
        if not sA or not sB or not sD:
            dropped += 1
            continue
        nsched = 70 if not quick else 24
        plan = []
        a, b = r.choice(sA), r.choice(sB)
        two = [s for s in scheds2[(len(a), len(b))]]
        for s in (two if not quick else r.sample(two, min(len(two), nsched))):
            plan.append((s, a, b, []))
        d = r.choice(sD)
        a3, b3 = a[:3], b[:3]
        three = scheds3[(len(a3), len(b3), len(d[:2]))]
        for s in r.sample(three, min(len(three), 10 if quick else 60)):
            plan.append((s, a3, b3, d[:2]))
        for si, (sched, oa, ob, od) in enumerate(plan):
            variant = r.choice(["plain", "plain", "save", "remove"]) if si % 2 else "plain"
            if od and si % 2:
                variant = r.choice(["save", "remove", "remove"])
            ia = ib = idd = 0
            cur = FD
            on = 0
            script = [{"op": "new"}]
            cut = r.randint(1, len(sched) - 1) if len(sched) > 1 else 1
            removed = set()
            for pos, f in enumerate(sched):
                name = {"A": FA, "B": FB, "D": FD}[f]
                if variant == "save" and pos == cut:
                    script.append({"op": "save", "slot": "s", "on": 0})
                    script += [{"op": "new", "on": 1}, {"op": "load", "slot": "s", "on": 1}]
                    on = 1
                if variant == "remove" and pos == cut:
                    victim = cur if cur in (FA, FB) and r.random() < 0.7 else r.choice([FA, FB])
                    started = (victim == FA and ia > 0) or (victim == FB and ib > 0)
                    if started:
                        script.append({"op": "remove_flow", "name": victim, "on": on})
                        removed.add(victim)
                        if cur == victim:
                            cur = FD
                if name in removed:
                    continue
                if name != cur:
                    if name == FD and r.random() < 0.5:
                        script.append({"op": "switch_default", "on": on})
                    else:
                        script.append({"op": "switch_flow", "name": name, "on": on})
                    cur = name
                if f == "A":
                    op = oa[ia]
                    ia += 1
                elif f == "B":
                    op = ob[ib]
                    ib += 1
                else:
                    op = od[idd]
                    idd += 1
                script.append(dict(op, on=on))
            cs = runner.CaseSpec(key="%s|%s|%s|%d" % (pid, sched, variant, si),
                                 scenario=common.scenario(0, p, script), root=root, froot=froot,
                                 info=dict(schedule=sched, variant=variant),
                                 nontrivial=lambda rs: len(set(x["opfull"].get("name") for x in rs if x["op"] == "switch_flow")) >= 2)
            cs.cfg = cfg
            cases.append(cs)
    scs = []
    for n, cs in enumerate(cases):
        cs.scenario["case"] = n
        scs.append(cs.scenario)
    recs = lib.run_inkdrive(scs, wd, name="probe%d" % idx, timeout=1800)
    bc = lib.by_case(recs)
    nontrivial = set()
    samples = []
    for n, cs in enumerate(cases):
        rs = bc.get(json.dumps(n), [])
        caseno = batch.start_case(cs.key, cs.info, cmp=relational.FLOW_LOCAL, cmpall=relational.FLOW_LOCAL, pf=True,
                                  cmpsave=False, cmpcb=False)
        batch.add_probe(caseno, rs, cs.cfg, cs.root, cs.froot)
        if cs.nontrivial(rs):
            nontrivial.add(lib.sha([cs.scenario["programs"], cs.scenario["script"]]))
        if len(samples) < 1:
            samples.append(dict(schedule=cs.info, script=cs.scenario["script"][:14]))
    mism, stats = batch.run(wd)
    for m in mism:
        m["explain"] = batch.explain(m)
        m["scenario"] = runner.cases_by_key(cases, m["case"])
    stats.update(dict(cases=len(cases), nontrivial=len(nontrivial), samples=samples, dropped=dropped, programs=len(progs)))
    return mism, stats


def run(tier, seed):
    t0 = time.time()
    wd = lib.workdir("C10")
    lib.build("debug")
    quick = tier == "quick"
    n = 16 if quick else 300
    progs = common.gen_programs(n, seed, vars=2, flows=2, turns=0.0, knots=2, stmts=4, threads=0.0, temps=3.0)
    design = dict(states=0, distinct=0)
    scheds2, scheds3 = SchedCache(wd, design), SchedCache(wd, design)
    args = [(i, ch, tier, seed, wd, scheds2, scheds3) for i, ch in enumerate(runner.chunked(progs, 4 if quick else 10))]
    allm = []
    tot = dict(states=0, distinct=0, events=0, nodes=0, cases=0, nontrivial=0, programs=0, dropped=0)
    samples = []
    with concurrent.futures.ThreadPoolExecutor(max_workers=6) as pool:
        for mism, stats in pool.map(chunk_run, args):
            allm += mism
            for k in tot:
                tot[k] += stats.get(k, 0)
            samples += stats["samples"]
    nviol, tool, seen_known = runner.report_mismatches("C10", allm)
    cov = dict(states=max(1, tot["distinct"] + design["distinct"]), transitions=max(1, tot["states"] + design["states"]),
               traces_validated_against_impl=tot["cases"], samples=samples[:3], evaluations=tot["cases"],
               distinct_nontrivial=tot["nontrivial"],
               rule="programs with two disjoint extra flows x TLC-enumerated interleavings (all 70 of 4+4 operations for "
                    "two flows in the thorough tier, a sample in quick; sampled three-way schedules with the default flow) x "
                    "{plain, save + load into a fresh twin, remove_flow} at a random point; non-trivial: at least two "
                    "different flows were switched to",
               programs=tot["programs"], programs_dropped=tot["dropped"], reference_positions=tot["nodes"],
               events=tot["events"], tool_level_mismatches=tool, known_findings_seen=seen_known,
               schedules_enumerated_by_tlc=sum(len(v) for v in scheds2.values()) + sum(len(v) for v in scheds3.values()),
               exhaustive=False)
    lib.write_evidence("C10", tier, seed, "model_checking", cov, time.time() - t0, nviol,
                       ["flows are generated disjoint (own knot, own variable) and free of turn-index reads"])
    lib.log("[C10] cases=%d events=%d violations=%d tool=%d wall=%.1fs" % (tot["cases"], tot["events"], nviol, tool, time.time() - t0))
    if tot["cases"] == 0 or tool > max(3, tot["cases"] // 5):
        raise lib.ToolError("C10: too many tool-level mismatches (%d of %d)" % (tool, tot["cases"]))
    # the same property against the executable model of the host interface (absolute oracle, Tier-S programs)
    import hostmodel
    nviol += hostmodel.check("C10", "flows", tier, seed)
    return nviol
