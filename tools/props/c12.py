"""C12 — external functions are called as bound: right arguments, order and timing.

Base runs use the Ink fallbacks of the externals (unbound, fallbacks allowed); every fallback also
counts its executions in a global, which under look-ahead/rewind is exactly the number of EXECUTED
calls.  Probed runs bind host functions with the same meaning.  TLC validates against InkHostAbs:
the transcript (text, tags, choices, globals, counts) of a bound run equals the fallback run — this
checks argument values, argument order and 'the value is used where the call stands' — and rule
ExtCountRule (InkHostRules): for a function bound unsafe the cumulative number of host calls after
every operation equals the number of executed calls (exactly once, and never ahead of the delivered
line); for a function bound safe it is at least that.  An unsafe function called from inside a string
must not be called at all; an unbound external without fallbacks makes the first continue fail and
the story is usable after binding."""
import random

import common
import lib
import runner

CMP = ["can", "text", "tags", "choices", "vars", "visits", "errors"]


def make_mask(ext_names):
    ext = set(ext_names)

    def mask(comp, v):
        if comp == "vars" and isinstance(v, dict):
            return {k: x for k, x in v.items() if not k.startswith("cnt_")}
        if comp == "visits" and isinstance(v, dict):
            return {k: x for k, x in v.items() if k.split(".")[0] not in ext}
        return v
    return mask


def only_in_strings(seed):
    """a small program whose only external call sites are inside a string literal and inside choice text"""
    import gen_ink
    g = gen_ink.Gen(seed, externals=0)
    r = g.r
    L = ["EXTERNAL ext0(a)", "VAR cnt_ext0 = 0", "VAR v0 = 1", "-> k0", "== k0 =="]
    for _ in range(r.randint(1, 2)):
        L.append(g.words())
    form = r.choice(["temp", "choice", "both"])
    if form in ("temp", "both"):
        L.append('~ temp sx = "%s {ext0(%d)}"' % (g.word(), r.randint(0, 5)))
        L.append("%s {sx}" % g.word())
    if form in ("choice", "both"):
        L.append("* [%s {ext0(%d)}]" % (g.word(), r.randint(0, 5)))
        L.append("  " + g.words())
        L.append("* [%s]" % g.word())
        L.append("  " + g.words())
        L.append("- " + g.words())
    L += [g.words(), "-> END", "== function ext0(a) ==", "~ cnt_ext0 = cnt_ext0 + 1", "~ return a + 100"]
    return dict(src="\n".join(L) + "\n", id="instr-%d" % seed, ints=["v0"], bools=[], strs=[], functions=[],
                externals=[dict(name="ext0", arity=1, spec=dict(impl="lin", coef=[1], add=100))], flows=[], knots=["k0"])


def only_nested(seed):
    """a small program whose only external call sites sit in nested (unnamed) containers — a conditional block, a
    choice body, a sequence — and not on the first line: the first continue must still refuse to run unbound"""
    import gen_ink
    g = gen_ink.Gen(seed, externals=0)
    r = g.r
    L = ["EXTERNAL ext0(a, b)", "VAR cnt_ext0 = 0", "VAR v0 = 1"]
    form = r.choice(["root", "root-choice", "cond", "cond-knot", "seq", "choice", "stitch"])
    if form == "root":
        L += [g.words(), "%s {ext0(3, 4)}" % g.word(), g.words(), "-> END"]
    elif form == "root-choice":
        L += [g.words(), "* [%s]" % g.word(), "  %s {7 - ext0(2, 9)}" % g.word(), "* [%s]" % g.word(), "  " + g.words(),
              "- " + g.words(), "-> END"]
    else:
        L += ["-> k0", "== k0 ==", g.words(), g.words()]
        if form == "cond":
            L += ["{ v0 > 0:", "  %s {ext0(3, 4)}" % g.word(), "- else:", "  " + g.word(), "}"]
        elif form == "cond-knot":
            L += ["-> k1", "== k1 ==", g.words(), "{ v0 > 0:", "  %s {ext0(3, 4)}" % g.word(), "}"]
        elif form == "seq":
            L += ["{ stopping:", "  - %s {ext0(5, 6)}" % g.word(), "  - " + g.word(), "}"]
        elif form == "stitch":
            L += ["-> k0.st", "= st", g.words(), "{ v0 > 0:", "  ~ v0 = ext0(1, 2)", "}", "%s {v0}" % g.word()]
        elif form == "choice":
            L += ["* [%s]" % g.word(), "  %s {7 - ext0(2, 9)}" % g.word(), "* [%s]" % g.word(), "  " + g.words(), "- " + g.words()]
        L += [g.words(), "-> END"]
    L += ["== function ext0(a, b) ==", "~ cnt_ext0 = cnt_ext0 + 1", "~ return a * 10 + b"]
    return dict(src="\n".join(L) + "\n", id="nested-%d" % seed, ints=["v0"], bools=[], strs=[], functions=[],
                externals=[dict(name="ext0", arity=2, spec=dict(impl="lin", coef=[10, 1], add=0))], flows=[], knots=["k0"])


class Build:
    def __init__(self, tier, seed, mode):
        self.tier = tier
        self.rnd = random.Random(seed)
        self.mode = mode          # safe | unsafe | late
        self.turns = mode == "unsafe"   # an unsafe call after a line end costs one extra (empty) continue, so
        #                                 the unsafe run is compared turn by turn, as a `while can_continue` host sees it

    def prelude(self, p):
        return [{"op": "set_fallbacks", "v": True}]

    def cfg_for(self, ex):
        return dict(mask=make_mask([e["name"] for e in ex.prog["externals"]]))

    def cases(self, ex, trails, batch):
        out = []
        paths = sorted(ex.paths)
        root = trails[()][0]
        binds = [{"op": "bind", "name": e["name"], "safe": self.mode != "unsafe", "spec": e["spec"], "cls": "skip"}
                 for e in ex.prog["externals"]]
        for p in paths[: (6 if self.tier == "quick" else 40)]:
            ops = ex.paths[p]["ops"]
            if self.mode == "late":
                # unbound, fallbacks disabled: the first continue must fail cleanly; after binding the story plays
                first_cont = next((i for i, o in enumerate(ops) if o["op"] == "cont"), None)
                called = any((e["name"] + "(") in ex.prog["src"].split("== function " + e["name"])[0].replace(
                    "EXTERNAL " + e["name"] + "(", "") for e in ex.prog["externals"])
                if first_cont is None or not called:
                    continue
                script = [ops[0], {"op": "cont", "cls": "bad", "note": "unbound external, no fallbacks"}] + binds + ops[1:]
            else:
                script = [ops[0]] + binds + ops[1:]
            out.append(runner.CaseSpec(
                key="%s|%s|%s" % (ex.prog["id"], self.mode, list(p)),
                scenario=common.scenario(0, ex.prog, script), root=root, info=dict(mode=self.mode, path=list(p)),
                nontrivial=lambda rs: any(c.get("k") == "ext" for x in rs for c in (x.get("cb") or []))))
        return out


def run(tier, seed):
    n = 30 if tier == "quick" else 400
    nviol = 0
    # call sites outside strings: both safety modes and late binding
    progs = common.gen_programs(n, seed, vars=3, externals=3.0, ext_counters=1, assign_after_newline=2.0, glue=1.5, retype=0.0)
    progs_m = common.gen_programs(n, seed + 2, vars=3, externals=3.0, ext_counters=1, ext_markers=1, glue=0.0, retype=0.0,
                                  assign_after_newline=2.0)
    for mode, chk in (("unsafe", "unsafe"), ("safe", "safe"), ("late", "safe")):
        nviol += runner.run_relational(
            "C12", progs_m if mode == "unsafe" else progs, Build(tier, seed, mode), tier, seed, "model_checking",
            rule="generated programs with external calls as statements, inline prints, conditions and arguments, placed "
                 "around line ends and glue x explored paths x binding mode %s, compared with the fallback run; "
                 "non-trivial: at least one host callback fired" % mode,
            ex_kw=dict(depth=3 if tier == "quick" else 5, max_paths=8 if tier == "quick" else 40),
            case_kw=dict(cmp=CMP, cmpall=CMP, cmpcb=False, cmpsave=False, chk12=chk),
            assumptions=["host implementations and Ink fallbacks of an external compute the same pure function"])
    progs4 = [only_nested(seed * 37 + i) for i in range(16 if tier == "quick" else 120)]
    for mode in ("late", "unsafe", "safe"):
        nviol += runner.run_relational(
            "C12", progs4, Build(tier, seed, mode), tier, seed, "model_checking",
            rule="small programs whose call sites are all nested in conditional blocks, sequences, stitches and choice "
                 "bodies and not on the first line x mode %s" % mode,
            ex_kw=dict(depth=3, max_paths=8),
            case_kw=dict(cmp=CMP, cmpall=CMP, cmpcb=False, cmpsave=False, chk12="unsafe" if mode == "unsafe" else "safe"))
    # call sites inside strings and choice text: safe proceeds (equals the fallback run), unsafe is never called
    progs2 = common.gen_programs(max(8, n // 2), seed + 21, vars=2, externals=3.0, ext_counters=1, ext_in_strings=2.0, retype=0.0)
    nviol += runner.run_relational(
        "C12", progs2, Build(tier, seed, "safe"), tier, seed, "model_checking",
        rule="as above with calls inside string literals and choice text, bound look-ahead-safe",
        ex_kw=dict(depth=3, max_paths=8), case_kw=dict(cmp=CMP, cmpall=CMP, cmpcb=False, cmpsave=False, chk12="safe"))
    # ... and bound unsafe: the call is refused with an error, the host function is never called, nothing panics
    progs3 = [only_in_strings(seed * 31 + i) for i in range(12 if tier == "quick" else 80)]
    nviol += runner.run_relational(
        "C12", progs3, Build(tier, seed, "unsafe"), tier, seed, "model_checking",
        rule="as above, bound not look-ahead-safe: no host call may happen from inside a string or choice text",
        ex_kw=dict(depth=3, max_paths=8),
        case_kw=dict(cmp=[], cmpall=["can"], cmpcb=False, cmpsave=False, cmpres=False, cmpval=False, chk12="never"))
    # the calls the host receives, continue by continue, against the executable model (absolute oracle: function,
    # arguments, order and - for functions not safe in look-ahead - never before the preceding line was delivered)
    import hostmodel
    nviol += hostmodel.check("C12", "externs", tier, seed)
    return nviol
