"""C01 — what the player sees is what the source says, whatever the engine does internally (look-ahead, snapshot,
rewind).

spec/InkSem.tla is a source-level semantics of core Ink WITHOUT look-ahead: every statement takes effect once, in
program order; the lines of a turn are read off the output stream afterwards (spec/InkOutput.tla).  Programs are
generated as abstract syntax trees (tools/gen_ast.py) and rendered to Ink source; the real compiler and runtime play
every choice path to a depth; TLC (spec/InkSemTrace.tla) runs the semantics over the same paths, one state per
statement, and compares per turn the lines with their tags, the choices offered and how the turn ended, and at the end
of the path the global variables and the knot visit counts."""
import json
import os
import re
import sys
import time

import common
import gen_ast
import lib
import relational

STAGES = {
    "text": {"print", "glue", "tags", "icond", "iseq", "set", "temp", "block_if", "block_seq"},
    "choices": {"choices", "nested", "labels", "fallback", "conds", "sticky", "choice_print", "done"},
    "counts": {"counts", "turns", "loops"},
    "flow": {"tunnels", "threads"},
    "functions": {"functions"},
    "more": {"choice_tags", "typed_vars", "if_diverts", "stitches", "cond_choices", "externals", "label_diverts", "params", "divert_vars", "sugar", "switch", "refs", "choice_divert", "pure_calls"},
}
DEFAULT = set().union(*STAGES.values())


def chars(s):
    return [ord(c) for c in s]


def text_of(cs):
    return "".join(chr(c) for c in cs)


def turn_of(rec):
    o = rec.get("obs") or {}
    lines = [{"text": chars(t), "tags": [chars(x) for x in (tags or [])]} for t, tags in rec.get("lines", [])]
    choices = [{"text": chars(c["text"]), "tags": [chars(x) for x in c.get("tags", [])]} for c in o.get("choices", [])]
    if rec.get("res") != "ok" or o.get("errors"):
        status = "error"
    elif choices:
        status = "wait"
    else:
        status = "over"
    return {"lines": lines, "choices": choices, "status": status}


def save_value(v):
    """a value as written in a save document -> the form of spec/InkValue"""
    if isinstance(v, bool):
        return {"t": "bool", "v": v}
    if isinstance(v, int):
        return {"t": "int", "v": v}
    if isinstance(v, str) and v.startswith("^"):
        return {"t": "str", "v": chars(v[1:])}
    if isinstance(v, dict) and set(v) == {"^->"}:
        return {"t": "div", "v": v["^->"]}
    if isinstance(v, dict) and "^var" in v:
        return {"t": "ref", "v": v["^var"]}
    return None


def save_view(save, flows):
    """the part of a real save document that spec/InkLook.tla SaveView describes; None when something in it has no
    counterpart (floats, lists, divert targets)"""
    try:
        fl = save["flows"][save["currentFlowName"]]
        vs = {}
        for k, v in (save.get("variablesState") or {}).items():
            sv = save_value(v)
            if sv is None:
                return None
            vs[k] = sv
        threads = []
        for th in fl["callstack"]["threads"]:
            els = []
            for el in th["callstack"]:
                temps = {}
                for k, v in (el.get("temp") or {}).items():
                    if k.startswith("$"):
                        continue
                    sv = save_value(v)
                    if sv is None:
                        return None
                    temps[k] = sv
                cp = el.get("cPath")
                knot = cp.split(".")[0] if cp else ""
                els.append({"type": 1 if el.get("type") == 1 else 0, "temps": temps, "knot": knot if knot in flows else ""})
            threads.append(els)
        stream, tag = [], None
        for it in fl.get("outputStream") or []:
            if it == "#":
                tag = []
            elif it == "/#":
                stream.append({"k": "tag", "v": tag})
                tag = None
            elif it == "\n":
                stream.append({"k": "nl"})
            elif it == "<>":
                stream.append({"k": "glue"})
            elif isinstance(it, str) and it.startswith("^"):
                if tag is not None:
                    tag += chars(it[1:])
                else:
                    stream.append({"k": "t", "v": chars(it[1:])})
            else:
                return None
        merged = []
        for it in stream:
            if it["k"] == "t" and merged and merged[-1]["k"] == "t":
                merged[-1]["v"] = merged[-1]["v"] + it["v"]
            elif it["k"] == "tag":
                merged.append({"k": "tag", "v": chars(" ".join("".join(chr(c) for c in it["v"]).split()))})
            else:
                merged.append(dict(it))
        for it in merged:
            if it["k"] == "t":
                it["v"] = chars(" ".join("".join(chr(c) for c in it["v"]).split()))
        stream = [it for it in merged if it["k"] != "t" or it["v"]]
        return {"turn": save.get("turnIdx"), "vars": vs,
                "counts": {k: v for k, v in (save.get("visitCounts") or {}).items() if k in flows},
                "threads": threads, "stream": stream,
                "choices": [{"text": chars(c["text"]), "tags": [chars(t) for t in c.get("tags", [])]} for c in fl.get("currentChoices", [])]}
    except (KeyError, TypeError, AttributeError):
        return None


def ext_calls(rec):
    """the calls of external functions the host received during this call of the engine: [f, args]"""
    return [{"f": c["f"], "args": [value_json(a) or {"t": "other"} for a in c.get("args", [])]}
            for c in (rec.get("cb") or []) if c.get("k") == "ext"]


def cont_of(rec, flows=()):
    """one cont of the real engine, as a host sees it"""
    o = rec.get("obs") or {}
    vs = {k: value_json(v) for k, v in (o.get("vars") or {}).items() if value_json(v)}
    sv = save_view(o["save"], flows) if isinstance(o.get("save"), dict) and "flows" in o["save"] else None
    return {"text": chars(rec.get("val") or ""), "tags": [chars(x) for x in (o.get("tags") or [])], "can": bool(o.get("can")),
            "choices": [chars(c["text"]) for c in o.get("choices", [])], "vars": vs or {"_": {"t": "int", "v": 0}},
            "err": rec.get("res") != "ok" or bool(o.get("errors")), "sv": sv if sv is not None else [],
            "calls": ext_calls(rec)}


def value_json(v):
    if v.get("t") in ("int", "bool"):
        return {"t": v["t"], "v": v["v"]}
    if v.get("t") == "str":
        return {"t": "str", "v": chars(v["v"])}
    if v.get("t") == "target":
        return {"t": "div", "v": v["v"]}
    return None


def build_cases(progs, wd, depth, max_paths, per_prog, flavour="debug"):
    ps = [dict(id="ast-%d" % p["seed"], src=p["ink"], ast=p) for p in progs]
    exs, counts = common.explore(ps, wd, depth=depth, max_paths=max_paths, seed=7, fuel=20000,
                                 obs={"save": True, "vars": True, "visits": True}, name="c01", flavour=flavour, turns=False,
                                 prelude=lambda q: q["ast"].get("binds", []))
    cases, skipped = [], dict(counts)
    skipped["compile_error_list"] = []
    by_id = {e.prog["id"]: e for e in exs}
    for p in ps:
        e = by_id.get(p["id"])
        if e is None:
            continue
        if e.fault:
            allr = [r for t in e.paths.values() for r in t["new"]]
            if any(r.get("res") == "panic" or "obs_panic" in r for r in allr):
                # a panic of the engine on a program of this fragment is a finding in its own right
                cases.append(dict(case=p["id"] + "/fault", fault=True, prog_id=p["id"], ink=p["src"]))
            else:
                skipped["runaway"] = skipped.get("runaway", 0) + 1      # a story that never ends a turn
            continue
        paths = sorted(e.paths, key=lambda t: (-len(t), t))
        maximal = [t for t in paths if not any(len(u) > len(t) and u[:len(t)] == t for u in paths)]
        for t in maximal[:per_prog]:
            turns, conts = [], []
            for k in range(len(t) + 1):
                new = e.paths[t[:k]]["new"]
                trs = [r for r in relational.collapse_turns(new) if r.get("op") == "turn"]
                if not trs:
                    break
                turns.append(turn_of(trs[-1]))
                conts.append([cont_of(r, set(p["ast"]["prog"]["knots"])) for r in new if r.get("op") == "cont"])
            last = [r for r in e.paths[t]["recs"] if r.get("obs")][-1]["obs"]
            fvars = {k: value_json(v) for k, v in (last.get("vars") or {}).items() if value_json(v)}
            fcounts = {k: v for k, v in (last.get("visits") or {}).items() if k in p["ast"]["knots"] and isinstance(v, int)}
            cases.append(dict(case="%s/%s" % (p["id"], "".join(map(str, t)) or "-"), prog=p["ast"]["prog"], path=list(t),
                              turns=turns, final={"vars": fvars or {"_": {"t": "int", "v": 0}}, "counts": fcounts or {"_": 0}},
                              conts=conts, prog_id=p["id"]))
    for p in ps:
        e = by_id.get(p["id"])
        if e is None:
            skipped["compile_error_list"].append(p["id"])
    return cases, skipped, {p["id"]: p for p in ps}


def run_tlc_one(cases, wd, name, module="InkSemTrace", envvar="SEM"):
    path = os.path.join(wd, "%s.%s.ndjson" % (name, envvar.lower()))
    with open(path, "w") as f:
        for c in cases:
            if module == "InkSemTrace":
                f.write(json.dumps({k: c[k] for k in ("case", "prog", "path", "turns", "final")}) + "\n")
            else:
                f.write(json.dumps({"case": c["case"], "prog": c["prog"], "path": c["path"], "turns": c["conts"]}) + "\n")
    res = lib.run_tlc(module, module + ".cfg", wd, env_extra={envvar: path}, workers=1, timeout=3000, xmx="3g")
    mism = []
    for line in lib.tlc_prints(res["out"], "MISMATCH"):
        m = re.match(r'<<"MISMATCH", "([^"]*)", (\d+), "([^"]*)", "([^"]*)", "(.*)">>$', line)
        if not m:
            raise lib.ToolError("unparsable MISMATCH line: " + line[:300])
        exp = json.loads(json.loads('"' + m.group(5) + '"'))
        mism.append(dict(case=m.group(1), turn=int(m.group(2)), rule=m.group(3), detail=m.group(4), expected=exp))
    cons = lib.tlc_prints(res["out"], "CONSUMED")
    if not res["ok"] or not cons:
        raise lib.ToolError("%s failed:\n" % module + "\n".join(res["out"].splitlines()[-30:]))
    return res, mism


def run_tlc(cases, wd, name="c01", jobs=12, module="InkSemTrace", envvar="SEM"):
    """the cases are independent: several TLC processes share them"""
    from concurrent.futures import ThreadPoolExecutor
    jobs = max(1, min(jobs, len(cases) // 10 or 1))
    parts = [cases[i::jobs] for i in range(jobs)]
    with ThreadPoolExecutor(jobs) as ex:
        outs = list(ex.map(lambda a: run_tlc_one(a[1], wd, "%s-%d" % (name, a[0]), module, envvar), enumerate(parts)))
    res = dict(ok=True, distinct=sum(r["distinct"] for r, _ in outs), states=sum(r["states"] for r, _ in outs))
    return res, [m for _, ms in outs for m in ms], True


MC_FEATURES = {"print", "glue", "tags", "icond", "iseq", "set", "temp", "block_if", "choices", "fallback", "conds", "sticky",
               "counts", "turns", "loops", "tunnels", "threads", "functions", "labels", "done", "nested", "faults"}


MC_INVARIANTS = ("LookAheadIsInvisible", "MessagesOnce", "SwitchAwayAndBack", "OthersUntouched", "EvalLeavesTheStoryAlone", "SaveLoadIdentity", "ResetIsInitial",
                 "RefusedIsNoOp", "ObserversMatchPolling")


def small_programs(seed, n, limit=60):
    """programs of at most `limit` statements for the exhaustive design-level exploration"""
    out, k = [], 0
    while len(out) < n and k < 4000:
        p = gen_ast.generate(seed * 50021 + k, MC_FEATURES, knots=2, size=0.5, focus=("bursts", "nested", None)[k % 3])
        k += 1
        # every second program raises messages: a warning, or a division by a global (which a host may set to zero)
        faulty = "wrn {" in p["ink"] or re.search(r"[/%] v\d", p["ink"]) is not None
        if sum(len(b) for b in p["prog"]["bodies"]) <= limit and ("<- " in p["ink"] or "->->" in p["ink"] or "<>" in p["ink"]) \
                and (faulty or len(out) % 2 == 0):
            out.append(p)
    return out


def design_check(tier, seed, wd):
    """spec/InkHostMC.tla: TLC explores every history of at most MaxCalls public calls over small programs and checks
    the design-level invariants (look-ahead is invisible, flows are independent, save/load, reset, refused calls).  No
    code is run; a violated invariant is a defect of the specification (tool error), not of the engine."""
    from concurrent.futures import ThreadPoolExecutor
    quick = tier == "quick"
    progs = small_programs(seed, 4 if quick else 12)
    calls = 4 if quick else 5
    if tier == "deep":
        # (thorough tier, second pass: fewer programs, one call more)
        progs, calls = small_programs(seed + 1, 3), 6
    cfg = os.path.join(wd, "InkHostMC-%d.cfg" % calls)
    with open(cfg, "w") as f:
        f.write("SPECIFICATION Spec\nCONSTANT MaxCalls = %d\nVIEW hview\n" % calls)
        for inv in MC_INVARIANTS:
            f.write("INVARIANT %s\n" % inv)
        f.write("CHECK_DEADLOCK FALSE\n")

    def one(a):
        i, p = a
        path = os.path.join(wd, "mcprog-%d.ndjson" % i)
        with open(path, "w") as f:
            f.write(json.dumps(p["prog"]) + "\n")
        # (the number of reachable host states depends heavily on the program: a time limit per program; what was explored
        # until then has been checked, the program counts as not exhausted)
        limit = 150 if quick else 300
        res = lib.run_tlc("InkHostMC", cfg, wd, env_extra={"MCPROG": path}, workers=2, timeout=limit, xmx="4g", deque=False)
        if res["rc"] == 124 and "is violated" not in res["out"] and "Error:" not in res["out"]:
            prog = re.findall(r"Progress\(\d+\)[^\n]*?([\d,]+) states generated[^\n]*?([\d,]+) distinct states found", res["out"])
            if prog:
                res["states"], res["distinct"] = int(prog[-1][0].replace(",", "")), int(prog[-1][1].replace(",", ""))
            res["timed_out"] = True
            return res
        if not res["ok"]:
            raise lib.ToolError("InkHostMC: a design-level invariant does not hold (or TLC failed) on program %d:\n%s\n%s" % (
                p["seed"], "\n".join(l for l in res["out"].splitlines() if "nvariant" in l or "Error" in l)[:2000], p["ink"]))
        return res
    with ThreadPoolExecutor(6) as ex:
        outs = list(ex.map(one, enumerate(progs)))
    unfinished = sum(1 for r in outs if r.get("timed_out"))
    return dict(programs=len(progs), max_calls=calls, distinct_states=sum(r["distinct"] for r in outs),
                states=sum(r["states"] for r in outs), exhaustive=unfinished == 0, programs_not_exhausted_within_the_time_limit=unfinished,
                invariants=list(MC_INVARIANTS),
                sample_program=progs[0]["ink"] if progs else "")


def readable(t):
    if isinstance(t, dict) and "lines" in t:
        return dict(status=t["status"],
                    lines=[[text_of(l["text"]), [text_of(x) for x in l["tags"]]] for l in t["lines"]],
                    choices=[[text_of(c["text"]), [text_of(x) for x in c["tags"]]] for c in t["choices"]])
    return t


def fingerprint(m, src):
    return "%s/%s" % (m["rule"], m["detail"].split(":")[0])


def run(tier, seed, features=None, n=None, debug=False):
    t0 = time.time()
    wd = lib.workdir("C01")
    lib.build("debug")
    quick = tier == "quick"
    n = n or (60 if quick else 600)
    feats = set(features) if features else DEFAULT
    progs = []
    for i in range(n):
        # a part of the programs uses one group of features only, so that a disagreement names its cause
        r = i % 4
        f = feats if r else feats & (STAGES["text"] | STAGES["choices"])
        focus = {4: "bursts", 5: "nested"}.get(i % 6) if r else None
        progs.append(gen_ast.generate(seed * 1000003 + i, f, knots=2 + i % 3, focus=focus))
    all_cases, all_mism, states, trans = [], [], 0, 0
    look_cases = look_conts = look_saves = 0
    skipped_total = {}
    srcs = {}
    chunk = 300
    for k in range(0, len(progs), chunk):
        cases, skipped, ps = build_cases(progs[k:k + chunk], wd, depth=3 if quick else 4, max_paths=12 if quick else 30,
                                         per_prog=3 if quick else 8)
        srcs.update({i: p["src"] for i, p in ps.items()})
        for kk, v in skipped.items():
            if isinstance(v, int):
                skipped_total[kk] = skipped_total.get(kk, 0) + v
            else:
                skipped_total.setdefault(kk, []).extend(v)
        faults = [c for c in cases if c.get("fault")]
        for c in faults:
            all_mism.append(dict(case=c["case"], turn=0, rule="Engine.fault", detail="", expected=None, prog_id=c["prog_id"]))
        cases = [c for c in cases if not c.get("fault")]
        if not cases:
            continue
        res, mism, cons = run_tlc(cases, wd, "c01-%d" % k)
        states += res["distinct"]
        trans += res["states"]
        # line by line against the look-ahead mechanism (cases whose plays raised no engine error)
        lcases = [c for c in cases if not any(r["err"] for t in c["conts"] for r in t)]
        res2, mism2, _ = run_tlc(lcases, wd, "c01look-%d" % k, module="InkLookTrace", envvar="LOOK")
        states += res2["distinct"]
        trans += res2["states"]
        look_cases += len(lcases)
        look_conts += sum(len(t) for c in lcases for t in c["conts"])
        look_saves += sum(1 for c in lcases for t in c["conts"] for r in t if r["sv"])
        mism += mism2
        bycase = {c["case"]: c for c in cases}
        for m in mism:
            c = bycase[m["case"]]
            m["prog_id"] = c["prog_id"]
            if m["rule"].startswith("Turn.") and m["turn"] <= len(c["turns"]):
                m["actual"] = c["turns"][m["turn"] - 1]
            elif m["rule"].startswith(("Cont.", "Design.")) and m["turn"] <= len(c["conts"]):
                m["actual"] = [dict(text=text_of(r["text"]), tags=[text_of(x) for x in r["tags"]], can=r["can"],
                                    choices=[text_of(x) for x in r["choices"]], vars=r["vars"]) for r in c["conts"][m["turn"] - 1]]
            else:
                m["actual"] = c["final"]
            m["path"] = c["path"]
        all_mism += mism
        all_cases += cases
    known = {k["fp"]: k for k in lib.known_findings() if k["prop"] == "C01"}
    nviol, seen_known, per_fp = 0, set(), {}
    for m in all_mism:
        fp = fingerprint(m, srcs.get(m["prog_id"], ""))
        if fp in known:
            if fp not in seen_known:
                seen_known.add(fp)
                print("KNOWN-FINDING: property=C01 %s %s" % (fp, known[fp]["text"]))
            continue
        per_fp[fp] = per_fp.get(fp, 0) + 1
        nviol += 1
        if per_fp[fp] <= 2 and len(per_fp) <= 30:
            payload = dict(fingerprint=fp, case=m["case"], turn=m["turn"], rule=m["rule"], detail=m["detail"],
                           path=m.get("path"), expected=readable(m["expected"]), actual=readable(m.get("actual")),
                           story=srcs.get(m["prog_id"]))
            rp = lib.write_replay("C01", payload)
            print("VIOLATION property=C01 replay=%s" % rp)
            if debug:
                print(json.dumps(payload, indent=1)[:6000])
    design = design_check(tier, seed, wd)
    states += design["distinct_states"]
    trans += design["states"]
    if not quick:
        deep = design_check("deep", seed, wd)
        states += deep["distinct_states"]
        trans += deep["states"]
        design["second_pass"] = {k: v for k, v in deep.items() if k != "sample_program"}
        lib.log("[C01] design level, second pass: %d programs, every history of <= %d calls, %d distinct states, invariants hold" % (
            deep["programs"], deep["max_calls"], deep["distinct_states"]))
    turns = sum(len(c["turns"]) for c in all_cases)
    distinct = len(set(json.dumps([c["prog_id"], c["path"]]) for c in all_cases))
    sample = [dict(case=c["case"], path=c["path"], story=srcs[c["prog_id"]], turns=[readable(t) for t in c["turns"]])
              for c in all_cases[:2]]
    cov = dict(states=max(1, states), transitions=max(1, trans), traces_validated_against_impl=len(all_cases),
               evaluations=len(all_cases), distinct_nontrivial=distinct, turns_compared=turns, programs=len(progs),
               lookahead_cases=look_cases, conts_compared=look_conts, save_documents_compared=look_saves, design_level=design,
               explore=skipped_total, samples=sample, features=sorted(feats),
               rule="generated programs (abstract syntax tree + rendered source) over the fragment named in `features`; "
                    "every choice path to the exploration depth, the maximal ones compared; a case is one (program, path); "
                    "non-trivial: all of them (each has at least one turn with text)",
               known_findings_seen=sorted(seen_known))
    lib.write_evidence("C01", tier, seed, "model_checking", cov, time.time() - t0, nviol,
                       ["the fragment of Ink that InkSem gives a meaning to (see spec/InkSem.tla); the compiler is part of "
                        "the system under test: a disagreement may be a compiler or a runtime defect",
                        "list values, floats, externals, variable observers and random sequences are outside this check "
                        "(C03, C07, C12 decide those)"])
    lib.log("[C01] design level (InkHostMC): %d programs, every history of <= %d calls, %d distinct states, invariants hold%s" % (
        design["programs"], design["max_calls"], design["distinct_states"],
        " (%d programs not exhausted within the time limit)" % design["programs_not_exhausted_within_the_time_limit"]
        if design["programs_not_exhausted_within_the_time_limit"] else ""))
    lib.log("[C01] programs=%d cases=%d turns=%d states=%d mismatches=%d %s explore=%s wall=%.1fs" % (
        len(progs), len(all_cases), turns, states, nviol, json.dumps(per_fp), {k: v for k, v in skipped_total.items() if isinstance(v, int)},
        time.time() - t0))
    # the same property against the executable model of the host interface (absolute oracle, Tier-S programs)
    import hostmodel
    nviol += hostmodel.check("C01", "plain", tier, seed)
    return nviol


if __name__ == "__main__":
    import argparse
    ap = argparse.ArgumentParser()
    ap.add_argument("--features", default="")
    ap.add_argument("--n", type=int, default=20)
    ap.add_argument("--seed", type=int, default=1)
    a = ap.parse_args()
    fs = set()
    for s in a.features.split(","):
        if s in STAGES:
            fs |= STAGES[s]
        elif s:
            fs.add(s)
    sys.exit(1 if run("quick", a.seed, fs or None, a.n, debug=True) else 0)
