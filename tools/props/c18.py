"""C18 — dropping a story releases all the memory it used.

Generated and corpus programs are played along explored histories (continues, choices, saves, loads,
resets, flow switches, host evaluations) in create-play-drop cycles, and one instance is reset /
re-loaded repeatedly; the harness logs the live-byte counter of its counting allocator with every
call.  TLC validates the counters against spec/InkHeapTrace.tla: after one warm-up repetition every
later repetition ends with exactly the same number of live bytes."""
import json
import os
import random
import re
import time

import common
import lib

CYCLES = 8


def run(tier, seed):
    t0 = time.time()
    quick = tier == "quick"
    wd = lib.workdir("C18")
    lib.build("debug")
    rnd = random.Random(seed)
    progs = common.gen_programs(24 if quick else 300, seed, vars=3, threads=1.0, tunnels=1.5, lists=0.5)
    corpus = [c for c in common.corpus_programs() if "TheIntercept" not in c["id"]]
    rnd.shuffle(corpus)
    progs += corpus[: (16 if quick else 120)]
    exs, counts = common.explore(progs, wd, depth=3, max_paths=6, obs=dict(save=False), name="base")
    scs, meta = [], []
    for ex in exs:
        if ex.fault or not ex.paths:
            continue
        paths = sorted(ex.paths, key=lambda t: -len(ex.paths[t]["ops"]))
        for variant in ("drop", "drop-rich", "reset", "load"):
            p = rnd.choice(paths[:3])
            ops = [o for o in ex.paths[p]["ops"] if o["op"] != "new"]
            script = []
            if variant.startswith("drop"):
                for k in range(CYCLES):
                    body = list(ops)
                    if variant == "drop-rich":
                        j = rnd.randint(0, len(body))
                        body = body[:j] + [{"op": "save", "slot": "s"}, {"op": "switch_flow", "name": "side"}, {"op": "cont"},
                                           {"op": "switch_default"}, {"op": "load", "slot": "s"}] + body[j:] + [{"op": "reset"}] + ops[:3]
                    script += [{"op": "new"}] + body + [{"op": "drop", "mark": k + 1}]
            elif variant == "reset":
                script = [{"op": "new"}]
                for k in range(CYCLES):
                    script += list(ops) + [{"op": "reset", "mark": k + 1}]
            else:
                j = rnd.randint(0, len(ops))
                script = [{"op": "new"}] + ops[:j] + [{"op": "save", "slot": "s"}]
                for k in range(CYCLES):
                    script += ops[j:] + [{"op": "load", "slot": "s", "mark": k + 1}]
            scs.append({"case": len(scs), "programs": [common.prog_spec(ex.prog)], "seed": 7, "fuel": 20000,
                        "obs": {"save": False, "vars": False, "visits": False}, "script": script})
            meta.append((ex.prog["id"], variant, list(p)))
    recs = lib.run_inkdrive(scs, wd, name="heap", timeout=3000)
    bc = lib.by_case(recs)
    rows, index = [], []
    for i, (pid, variant, p) in enumerate(meta):
        rs = bc.get(json.dumps(i), [])
        if any(r.get("res") in ("panic", "skipped") or r.get("op") == "abort" for r in rs):
            continue
        rows.append(dict(kind="case", case=i, k=0, live=0, last=False))
        index.append(i)
        for r in rs:
            mk = (r.get("opfull") or {}).get("mark")
            if mk:
                live = r.get("live_after", r.get("live"))
                rows.append(dict(kind="cycle" if variant.startswith("drop") else "mark", case=i, k=mk, live=live,
                                 last=(mk == CYCLES)))
    path = os.path.join(wd, "heap.ndjson")
    with open(path, "w") as f:
        for r in rows:
            f.write(json.dumps(r) + "\n")
    res = lib.run_tlc("InkHeapTrace", "InkHeapTrace.cfg", wd, env_extra=dict(HEAP=path), workers=1, timeout=1200)
    m = re.search(r'<<"CONSUMED", (\d+), (\d+)>>', res["out"])
    if not m or m.group(1) != m.group(2):
        raise lib.ToolError("InkHeapTrace did not consume the log:\n" + "\n".join(res["out"].splitlines()[-30:]))
    known = {k["fp"]: k for k in lib.known_findings() if k["prop"] == "C18"}
    seen_known, nviol, per = set(), 0, {}
    bad_cases = {}
    for line in lib.tlc_prints(res["out"], "MISMATCH"):
        mm = re.match(r'<<"MISMATCH", (\d+), "([^"]*)", (-?\d+)>>', line)
        l, rule, delta = int(mm.group(1)), mm.group(2), int(mm.group(3))
        case = rows[l - 1]["case"]
        bad_cases.setdefault((case, rule), []).append(delta)
    for (case, rule), deltas in sorted(bad_cases.items()):
        pid, variant, p = meta[case]
        fp = "%s/%s" % (rule, variant)
        if fp in known:
            if fp not in seen_known:
                seen_known.add(fp)
                print("KNOWN-FINDING: property=C18 %s %s" % (fp, known[fp]["text"]))
            continue
        per[fp] = per.get(fp, 0) + 1
        nviol += 1
        if per[fp] <= 2:
            rp = lib.write_replay("C18", dict(fingerprint=fp, program=pid, variant=variant, path=p, growth_bytes=deltas,
                                              scenario=scs[case]))
            print("VIOLATION property=C18 replay=%s" % rp)
    lib.log("[C18] cases=%d rows=%d violations=%s wall=%.1fs" % (len(index), len(rows), per, time.time() - t0))
    cov = dict(evaluations=len(index), distinct_nontrivial=len(set((meta[i][0], meta[i][1]) for i in index)),
               rule="generated and corpus programs x an explored path x {create-play-drop, the same with save / flow switch / "
                    "load / reset inside, repeated reset, repeated load} repeated %d times; non-trivial: every case (the "
                    "story was played); distinct by (program, variant)" % CYCLES,
               samples=[dict(program=meta[index[0]][0], variant=meta[index[0]][1], script=scs[index[0]]["script"][:10])] if index else [{}],
               states=max(1, res["distinct"]), transitions=max(1, res["states"]), repetitions=CYCLES,
               known_findings_seen=sorted(seen_known), exhaustive=False)
    lib.write_evidence("C18", tier, seed, "exploration", cov, time.time() - t0, nviol,
                       ["live bytes are those of the harness process' counting global allocator; the first repetition is a "
                        "warm-up that lets buffers of the harness and of the allocator reach their capacity"])
    return nviol
