"""C20 — the command-line tool speaks its protocol and matches the library.

The real rinklecate binary is run on generated programs whose text, tags and choices contain quotes,
backslashes, control and non-ASCII characters, with scripted standard input (valid and out-of-range
numbers, diverts to known and unknown paths with hostile characters, help, blank and junk lines, quit,
early end of input), in JSON mode (-j, with and without -k) and in plain mode.  The library transcript
of the same program (inkdrive with an error handler and fallbacks allowed, as the tool plays) is the
tree of turns.  spec/InkCli.tla defines the output-object sequence as a function of transcript and
input script; TLC (spec/InkCliTrace.tla) compares it with the objects scanned from the tool's stdout
by an independent strict JSON scanner (a fragment that is not a well-formed object of a documented
kind matches nothing); in plain mode TLC emits the expected sequence, which is rendered and compared
with stdout byte for byte.  Compile mode: the -o file must equal the library's compiled output; a
failing compile must exit non-zero and print the library's message with file name and line."""
import json
import os
import random
import re
import subprocess
import time

import common
import lib
from props import c06

HOSTILE = ["\"", "'", "\\\\", "é", "日本", "𝄞", "\u0001", "\t", "<b>", "&amp;", "%s", " ", "}{", "\"}", "\\\\\"", "\u001b[31m"]
HELP = "Type a choice number or a divert (e.g. '-> myKnot'), 'quit' to exit"


def hostile_program(seed):
    g = common.gen_ink.Gen(seed, vars=2, knots=2, stmts=3, threads=0.0, random=0.0, shuffles=0.0, functions=0.5, retype=0.0)
    r = g.r
    orig = g.word

    def word():
        w = orig()
        if r.random() < 0.35:
            w += r.choice(HOSTILE)
        return w
    g.word = word
    p = g.program()
    p["id"] = "cli-%d" % seed
    # names are case-sensitive in Ink: some knots get a name with capitals (a divert typed at the prompt must reach them)
    kns = list(p.get("knots") or [])
    forced = r.choice(kns) if kns else None
    for kn in kns:
        if kn == forced or r.random() < 0.5:
            new = "Knot" + kn[1:].upper() + "x"
            p["src"] = re.sub(r"\b%s\b" % re.escape(kn), new, p["src"])
            p["knots"] = [new if x == kn else x for x in p["knots"]]
    return p


def scan_objects(out):
    """independent strict scanner of a stream of JSON objects"""
    dec = json.JSONDecoder(strict=True)
    i, n, objs = 0, len(out), []
    while i < n:
        while i < n and out[i] in " \t\r\n":
            i += 1
        if i >= n:
            break
        try:
            o, j = dec.raw_decode(out, i)
        except ValueError:
            objs.append(("malformed", out[i:i + 80]))
            break
        objs.append(("obj", o))
        i = j
    return objs


def classify(objs, intern):
    res = []
    for kind, o in objs:
        if kind == "malformed" or not isinstance(o, dict) or len(o) == 0:
            res.append(dict(k="malformed", v=0))
            continue
        if "compile-success" in o:
            res.append(dict(k="compile", v=1 if o["compile-success"] is True else 0))
        elif "text" in o and isinstance(o["text"], str) and len(o) == 1:
            res.append(dict(k="text", v=intern(o["text"])))
        elif "tags" in o and isinstance(o["tags"], list) and len(o) == 1:
            res.append(dict(k="tags", v=intern(o["tags"])))
        elif "choices" in o and isinstance(o["choices"], list):
            ok = all(isinstance(c, dict) and isinstance(c.get("text"), str) and
                     (("tags" not in c and "tag_count" not in c) or (isinstance(c.get("tags"), list) and c.get("tag_count") == len(c["tags"])))
                     for c in o["choices"])
            res.append(dict(k="choices", v=intern([[c["text"], c.get("tags", [])] for c in o["choices"]])) if ok else dict(k="malformed", v=0))
        elif "issues" in o and isinstance(o["issues"], list):
            own = len(o["issues"]) == 1 and isinstance(o["issues"][0], str) and o["issues"][0].startswith("Error diverting to")
            res.append(dict(k="issues", v=0 if own else intern(o["issues"])))
        elif o == {"needInput": True}:
            res.append(dict(k="needInput", v=0))
        elif "cmdOutput" in o and o["cmdOutput"] == HELP:
            res.append(dict(k="cmdOutput", v=0))
        elif o == {"end": True}:
            res.append(dict(k="end", v=0))
        elif o == {"close": True}:
            res.append(dict(k="close", v=0))
        elif "export-complete" in o:
            res.append(dict(k="export", v=0))
        else:
            res.append(dict(k="malformed", v=0))
    return res


def run(tier, seed):
    t0 = time.time()
    quick = tier == "quick"
    wd = lib.workdir("C20")
    lib.build("debug")
    exe = lib.build_rinklecate()
    rnd = random.Random(seed)
    progs = [hostile_program(seed * 1000 + i) for i in range(20 if quick else 300)]
    progs += common.gen_programs(10 if quick else 100, seed, vars=2, knots=2, random=0.0, shuffles=0.0, msgs=1.0, threads=0.5)
    prelude = [{"op": "set_handler"}, {"op": "set_fallbacks", "v": True}]
    exs, counts = common.explore(progs, wd, depth=3, max_paths=10, prelude=prelude, obs=dict(save=False, vars=False, visits=False), name="base")
    intern = lib.Interner()
    cases, jump_scs, jump_meta = [], [], []
    srcdir = os.path.join(wd, "src")
    os.makedirs(srcdir, exist_ok=True)
    for pi, ex in enumerate(exs):
        if ex.fault or not ex.paths:
            continue
        # turns of the tree: node = path tuple
        turns, nxt = {}, {}

        def turn_of(recs):
            lines = []
            for r in recs:
                if r.get("op") == "cont" and r.get("res") == "ok":
                    msgs = [c for c in (r.get("cb") or []) if c.get("k") == "msg"]
                    issues = [c["text"] for c in msgs if c["type"] == "W"] + [c["text"] for c in msgs if c["type"] == "E"]
                    tags = (r.get("obs") or {}).get("tags") or []
                    lines.append(dict(text=intern(r.get("val")), tags=intern(tags), hastags=bool(tags), issues=intern(issues) if issues else 0))
            return lines
        for p in sorted(ex.paths, key=lambda t: (len(t), t)):
            new = [r for r in ex.paths[p]["new"]]
            last_obs = (ex.paths[p]["recs"][-1].get("obs") or {})
            ch = [[c["text"], c.get("tags", [])] for c in last_obs.get("choices", [])]
            turns[p] = dict(lines=turn_of(new), choices=intern(ch), nch=len(ch))
            if p:
                nxt.setdefault(p[:-1], {})["k%d" % p[-1]] = p
        ids = {p: i + 1 for i, p in enumerate(sorted(turns, key=lambda t: (len(t), t)))}
        knots = [k for k in ex.header["containers"] if "." not in k and not k.startswith("fn")][:3]
        src_path = os.path.join(srcdir, "p%d.ink" % pi)
        with open(src_path, "w", encoding="utf-8") as f:
            f.write(ex.prog["src"])
        # input scripts along random walks
        for si in range(4 if quick else 12):
            node = ()
            inputs, raw = [], []
            jump = None
            for _ in range(rnd.randint(1, 8)):
                if node not in turns or turns[node]["nch"] == 0:
                    break
                c = rnd.random()
                if si == 0 and not inputs and knots:
                    c = 0.93        # (the first session of every program starts with a divert to a knot that exists)
                nch = turns[node]["nch"]
                kids = nxt.get(node, {})
                if c < 0.45 and kids:
                    k = rnd.randrange(nch)
                    if "k%d" % k not in kids:
                        break
                    inputs.append(dict(k="num", v=k, lab="", known=False))
                    raw.append("%s%d%s" % (rnd.choice(["", " ", "  "]), k + 1, rnd.choice(["", " "])))
                    node = kids["k%d" % k]
                elif c < 0.55:
                    k = rnd.choice([nch, nch + 5, 0 - 1 + 0, 99999999])
                    if k < 0:
                        inputs.append(dict(k="junk", v=0, lab="", known=False))
                        raw.append("0")
                    else:
                        inputs.append(dict(k="num", v=k, lab="", known=False))
                        raw.append(str(k + 1))
                elif c < 0.65:
                    inputs.append(dict(k="blank", v=0, lab="", known=False))
                    raw.append(rnd.choice(["", "   ", "\t"]))
                elif c < 0.72:
                    inputs.append(dict(k="help", v=0, lab="", known=False))
                    raw.append(rnd.choice(["help", "HELP", " Help "]))
                elif c < 0.8:
                    inputs.append(dict(k="junk", v=0, lab="", known=False))
                    raw.append(rnd.choice(["what?", "-1", "1 2", "->", "-> a b", "1.5", "+1x"]))
                elif c < 0.9:
                    path = rnd.choice(["nosuch", "no\"such", "no\\such", "x\u0001y", "é日", "a'b", "\"}{\""])
                    inputs.append(dict(k="divert", v=0, lab="", known=False))
                    raw.append("-> " + path)
                elif c < 0.95 and knots and jump is None:
                    caps = [k for k in knots if k != k.lower()]
                    kn = rnd.choice(caps if caps and rnd.random() < 0.7 else knots)
                    jump = (tuple(node), kn, len(inputs))
                    inputs.append(dict(k="divert", v=0, lab="j:" + kn, known=True))
                    raw.append("-> " + kn)
                    break
                else:
                    inputs.append(dict(k="quit", v=0, lab="", known=False))
                    raw.append(rnd.choice(["quit", "exit", "QUIT"]))
                    break
            mode = rnd.choice(["json", "json", "jsonk", "plain"])
            case = dict(case=len(cases), prog=pi, src=src_path, ex=ex, turns=turns, nxt=nxt, ids=ids, inputs=inputs, raw=raw, mode=mode,
                        jump=jump)
            cases.append(case)
            if jump:
                ops = [o for o in ex.paths[jump[0]]["ops"]] + [{"op": "choose_path", "path": jump[1], "reset": True}, {"op": "turn"}]
                jump_scs.append(common.scenario(len(jump_scs), ex.prog, ops, obs=dict(save=False, vars=False, visits=False)))
                jump_meta.append(case)
    # base for the diverts to known knots
    if jump_scs:
        bc = lib.by_case(lib.run_inkdrive(jump_scs, wd, name="jumps"))
        for i, case in enumerate(jump_meta):
            rs = [r for r in bc.get(json.dumps(i), []) if r.get("n", 0) > 0]
            k = max((j for j, r in enumerate(rs) if r.get("op") == "choose_path"), default=None)
            if k is None or rs[k].get("res") != "ok":
                case["drop"] = True
                continue
            after = rs[k + 1:]
            lines = []
            for r in after:
                if r.get("op") == "cont" and r.get("res") == "ok":
                    msgs = [c for c in (r.get("cb") or []) if c.get("k") == "msg"]
                    issues = [c["text"] for c in msgs if c["type"] == "W"] + [c["text"] for c in msgs if c["type"] == "E"]
                    tags = (r.get("obs") or {}).get("tags") or []
                    lines.append(dict(text=intern(r.get("val")), tags=intern(tags), hastags=bool(tags), issues=intern(issues) if issues else 0))
            last_obs = (after[-1].get("obs") if after else rs[k].get("obs")) or {}
            ch = [[c["text"], c.get("tags", [])] for c in last_obs.get("choices", [])]
            case["jump_turn"] = dict(lines=lines, choices=intern(ch), nch=len(ch))
    # run the tool
    rows, ran = [], []
    for case in cases:
        if case.get("drop"):
            continue
        args = [exe, "-p"] + (["-j"] if case["mode"].startswith("json") else []) + (["-k"] if case["mode"] == "jsonk" else []) + [case["src"]]
        try:
            p = subprocess.run(args, input=("\n".join(case["raw"]) + ("\n" if case["raw"] else "")).encode("utf-8"),
                               capture_output=True, timeout=20)
            out, err, rc = p.stdout.decode("utf-8", errors="replace"), p.stderr.decode("utf-8", errors="replace"), p.returncode
        except subprocess.TimeoutExpired:
            out, err, rc = "", "timeout", -999
        case["stdout"], case["stderr"], case["rc"] = out, err, rc
        ids = dict(case["ids"])
        turns = {str(ids[p]): t for p, t in case["turns"].items()}
        nextm = {str(ids[p]): {lab: ids[q] for lab, q in m.items()} for p, m in case["nxt"].items()}
        for p in case["turns"]:
            nextm.setdefault(str(ids[p]), {})
        if case["jump"]:
            jid = len(ids) + 1
            turns[str(jid)] = case["jump_turn"]
            nextm[str(jid)] = {}
            nextm[str(ids[case["jump"][0]])]["j:" + case["jump"][1]] = jid
        n = len(turns)
        row = dict(case=case["case"], root=1, mode="plain" if case["mode"] == "plain" else "json", keepopen=case["mode"] == "jsonk",
                   turns=[turns[str(i)] for i in range(1, n + 1)], next=[nextm[str(i)] for i in range(1, n + 1)],
                   inputs=case["inputs"], outputs=[])
        if case["mode"] != "plain":
            objs = classify(scan_objects(out), intern)
            # the compile-success object comes first; it is part of the protocol
            if objs and objs[0]["k"] == "compile" and objs[0]["v"] == 1:
                objs = objs[1:]
            else:
                objs = [dict(k="malformed", v=0)] + objs
            row["outputs"] = objs
        rows.append(row)
        ran.append(case)
    path = os.path.join(wd, "cli.ndjson")
    with open(path, "w") as f:
        for r in rows:
            f.write(json.dumps(r) + "\n")
    res = lib.run_tlc("InkCliTrace", "InkCliTrace.cfg", wd, env_extra=dict(CLI=path), workers=1, timeout=1800, xmx="6g")
    m = re.search(r'<<"CONSUMED", (\d+), (\d+)>>', res["out"])
    if not m or m.group(1) != m.group(2):
        raise lib.ToolError("InkCliTrace did not consume the cases:\n" + "\n".join(res["out"].splitlines()[-30:]))
    known = {k["fp"]: k for k in lib.known_findings() if k["prop"] == "C20"}
    seen_known, per, nviol = set(), {}, 0
    bycase = {c["case"]: c for c in ran}

    def report(fp, payload):
        nonlocal nviol
        if fp in known:
            if fp not in seen_known:
                seen_known.add(fp)
                print("KNOWN-FINDING: property=C20 %s %s" % (fp, known[fp]["text"]))
            return
        per[fp] = per.get(fp, 0) + 1
        nviol += 1
        if per[fp] <= 2:
            payload["fingerprint"] = fp
            print("VIOLATION property=C20 replay=%s" % lib.write_replay("C20", payload))

    def payload_of(c, **kw):
        d = dict(program=c["ex"].prog["src"], mode=c["mode"], stdin=c["raw"], stdout=c.get("stdout", "")[:3000],
                 stderr=c.get("stderr", "")[:1000], exit_code=c.get("rc"))
        d.update(kw)
        return d

    for line in lib.tlc_prints(res["out"], "MISMATCH"):
        mm = re.match(r'<<"MISMATCH", (\d+), (\d+), "([^"]*)", "([^"]*)">>', line)
        cno, pos, want, got = int(mm.group(1)), int(mm.group(2)), mm.group(3), mm.group(4)
        c = bycase[cno]
        # identify the finding by what was expected / found and by the input line that preceded it
        ctx = ""
        if got == "malformed":
            frag = [o for k, o in scan_objects(c["stdout"]) if k == "malformed"]
            ctx = "/control-character" if frag and re.search(r"[\x00-\x08\x0b\x0c\x0e-\x1f]", frag[0]) else (
                "/after-divert" if frag and "Error diverting" in frag[0] else "/other")
        report("Json.expected_%s_got_%s%s" % (want, got, ctx), payload_of(c, position=pos, expected=want, found=got))
    # plain mode: render the expected sequence
    for line in lib.tlc_prints(res["out"], "EXPECT"):
        mm = re.match(r'<<"EXPECT", (\d+), "(.*)">>$', line)
        cno = int(mm.group(1))
        exp = json.loads(json.loads('"' + mm.group(2) + '"'))
        c = bycase[cno]
        txt = ""
        for o in exp:
            k, v = o["k"], o["v"]
            if k == "text":
                txt += intern.value(v)
            elif k == "tags":
                txt += "# tags: %s\n" % ", ".join(intern.value(v))
            elif k == "choices":
                txt += "\n"
                for i, (t, tg) in enumerate(intern.value(v)):
                    txt += "%d: %s\n" % (i + 1, t)
                    if tg:
                        txt += "# tags: %s\n" % ", ".join(tg)
            elif k == "needInput":
                txt += "?> "
            elif k == "cmdOutput":
                txt += HELP + "\n"
            elif k == "end":
                txt += "--- End of story ---\n"
            elif k == "close":
                txt += "<User input stream closed.>\n"
        if c["stdout"] != txt:
            i = next((j for j in range(min(len(txt), len(c["stdout"]))) if txt[j] != c["stdout"][j]), min(len(txt), len(c["stdout"])))
            report("Plain.stdout_differs", payload_of(c, expected_stdout=txt[:3000], first_difference_at=i))
    for c in ran:
        if c["rc"] != 0:
            report("Play.exit_code_%s" % c["rc"], payload_of(c))
    # compile mode
    ncomp = 0
    pool = [ex.prog["src"] for ex in exs if not ex.fault][:40]
    comp_inputs = [("plain", s) for s in pool[: (10 if quick else 40)]]
    for _ in range(40 if quick else 600):
        comp_inputs.append(c06.mutate_source(rnd.choice(pool), rnd, pool))
    scs = [{"case": i, "programs": [{"ink": s}], "echo_json": True, "allow_compile_error": True, "script": []} for i, (_k, s) in enumerate(comp_inputs)]
    libout = {}
    for r in lib.run_inkdrive(scs, wd, name="compile"):
        if r.get("op") == "programs":
            libout[r["case"]] = r["programs"][0]
    for i, (kind, s) in enumerate(comp_inputs):
        ncomp += 1
        src_path = os.path.join(srcdir, "c%d.ink" % i)
        out_path = os.path.join(srcdir, "c%d.out.json" % i)
        with open(src_path, "w", encoding="utf-8") as f:
            f.write(s)
        if os.path.exists(out_path):
            os.remove(out_path)
        json_mode = rnd.random() < 0.5
        try:
            p = subprocess.run([exe] + (["-j"] if json_mode else []) + ["-o", out_path, src_path], capture_output=True, timeout=30)
            rc, out, err = p.returncode, p.stdout.decode("utf-8", "replace"), p.stderr.decode("utf-8", "replace")
        except subprocess.TimeoutExpired:
            rc, out, err = -999, "", "timeout"
        lo = libout.get(i, {})
        pay = dict(source=s[:4000], mutation=kind, json_mode=json_mode, exit_code=rc, stdout=out[:1500], stderr=err[:1500],
                   library=lo.get("compile_detail"))
        if lo.get("json"):
            if rc != 0 or not os.path.exists(out_path):
                report("Compile.tool_failed_library_succeeded", pay)
            elif open(out_path, encoding="utf-8").read() != lo["json"]:
                report("Compile.output_differs_from_library", pay)
        else:
            det = lo.get("compile_detail") or {}
            if det.get("kind") == "panic":
                continue            # the library panicked: C06's business
            if rc == 0:
                report("Compile.error_but_exit_code_0", pay)
                continue
            text = out if json_mode else err
            msgs = []
            if json_mode:
                for k, o in scan_objects(out):
                    if k == "malformed":
                        report("Compile.malformed_json_output", pay)
                    elif isinstance(o, dict) and "issues" in o:
                        msgs += [x for x in o["issues"] if isinstance(x, str)]
                text = "\n".join(msgs)
            # (a source with an INCLUDE line: the library is called without a file handler here and says so, the tool has
            # one and says that the file cannot be read - two different, both correct, messages)
            includes = "but no file handler was provided" in (det.get("message") or "")
            if det.get("message") and det["message"] not in text and not (includes and "Failed to read included file" in text):
                report("Compile.message_missing", pay)
            elif det.get("line") and ("c%d.ink:%d" % (i, det["line"])) not in text:
                report("Compile.file_or_line_missing", pay)
    lib.log("[C20] sessions=%d compile runs=%d violations=%s wall=%.1fs" % (len(ran), ncomp, json.dumps(per), time.time() - t0))
    modes = {}
    for c in ran:
        modes[c["mode"]] = modes.get(c["mode"], 0) + 1
    cov = dict(states=max(1, res["distinct"]), transitions=max(1, res["states"]), traces_validated_against_impl=len(ran),
               samples=[dict(mode=ran[0]["mode"], stdin=ran[0]["raw"], stdout=ran[0]["stdout"][:600])] if ran else [{}],
               evaluations=len(ran) + ncomp, distinct_nontrivial=len(set((c["prog"], tuple(c["raw"]), c["mode"]) for c in ran if c["raw"])),
               rule="generated programs with hostile characters in text, tags and choices (and programs raising warnings/errors) x "
                    "random input scripts of up to 8 lines x {JSON, JSON -k, plain}; compile mode on the same sources and on "
                    "mutants; non-trivial: the script has at least one input line; distinct by (program, script, mode)",
               sessions_by_mode=modes, compile_runs=ncomp, known_findings_seen=sorted(seen_known), exhaustive=False)
    lib.write_evidence("C20", tier, seed, "model_checking", cov, time.time() - t0, nviol,
                       ["the story seed of the tool cannot be set: programs use no randomness",
                        "plain mode: standard output only (prompts and text); messages on standard error are not compared"])
    return nviol
