"""C15 — malformed story or save input is rejected with an error, not a crash.

Structural mutants (delete / retype / duplicate / swap a node, numeric extremes, renamed keys) and textual
mutants (truncation, corrupted bytes, nesting bombs, stray tokens) of valid story documents and of saves
taken at explored points are fed to Story::new (both loaders) and to load_state.  Each attempt runs in the
harness under catch_unwind, a panic or an abnormal exit of the process (stack overflow, abort) is an
outcome that matches no action.  TLC validates (InkHostTrace, rule Fault.panic): constructing and
loading end in ok or err; whatever happened, after reset_state a complete base path plays exactly as in
the base run (InkHostAbs rule ResetA)."""
import json
import random
import time

import common
import lib
import mutate
import relational
import runner


class BuildSaves:
    """mutated saves loaded into a story, then reset and lockstep with the base"""

    def __init__(self, tier, seed):
        self.tier = tier
        self.rnd = random.Random(seed)

    def cases(self, ex, trails, batch):
        out = []
        r = self.rnd
        paths = sorted(ex.paths)
        root = trails[()][0]
        saves = []
        for p in paths:
            for rec in ex.paths[p]["recs"]:
                sv = (rec.get("obs") or {}).get("save")
                if sv:
                    saves.append(sv)
        if not saves:
            return out
        for ci in range(20 if self.tier == "quick" else 150):
            sv = r.choice(saves)
            kind, text = mutate.mutate_json(sv, json.dumps(sv), r)
            q = r.choice(paths)
            after = [o for o in ex.paths[q]["ops"] if o["op"] != "new"]
            pre = ex.paths[q]["ops"][: r.randint(1, len(ex.paths[q]["ops"]))]
            script = list(pre) + [{"op": "load_text", "text": text, "cls": "free", "note": kind},
                                  {"op": "cont", "cls": "free"}, {"op": "choose", "i": 0, "cls": "free"}, {"op": "cont", "cls": "free"},
                                  {"op": "save", "slot": "x", "cls": "free"}, {"op": "reset"}] + after
            out.append(runner.CaseSpec(
                key="%s|save|%s|%d" % (ex.prog["id"], kind, ci), scenario=common.scenario(0, ex.prog, script), root=root,
                info=dict(kind=kind, mutant=text[:300]),
                nontrivial=lambda rs: any(x["op"] == "load_text" for x in rs)))
        return out


def story_mutants(tier, seed, wd, flavour):
    """mutated story documents: Story::new must return ok or err; if ok, a few calls must not panic"""
    rnd = random.Random(seed + (1 if flavour == "stream" else 0))
    quick = tier == "quick"
    docs = []
    corpus = [c for c in common.corpus_programs() if "TheIntercept" not in c["id"]]
    rnd.shuffle(corpus)
    for c in corpus[: (12 if quick else 100)]:
        text = open(c["file"], encoding="utf-8-sig").read()
        docs.append((c["id"], json.loads(text), text))
    scs = []
    meta = []
    for i in range(400 if quick else 20000):
        pid, doc, text = rnd.choice(docs)
        kind, mt = mutate.mutate_json(doc, text, rnd)
        meta.append((pid, kind, mt))
        scs.append({"case": i, "programs": [{"json": mt}], "seed": 7, "fuel": 3000, "obs": {"save": False, "vars": False},
                    "script": [{"op": "new"}, {"op": "set_fallbacks", "v": True}, {"op": "cont"}, {"op": "cont"},
                               {"op": "choose", "i": 0}, {"op": "cont"}, {"op": "save", "slot": "s"}, {"op": "load", "slot": "s"},
                               {"op": "reset"}, {"op": "cont"}]})
    recs = lib.run_inkdrive(scs, wd, name="docs-" + flavour, flavour=flavour, timeout=3000, env_extra={"INKDRIVE_STACK_MB": "16"})
    bc = lib.by_case(recs)
    bad = []
    outcomes = {}
    for i, (pid, kind, mt) in enumerate(meta):
        rs = bc.get(json.dumps(i), [])
        worst = "ok"
        detail = ""
        for r in rs:
            if r.get("op") == "abort":
                worst, detail = "abort", r.get("stderr", "")[-300:]
            elif (r.get("res") == "panic" or "obs_panic" in r) and worst != "abort":
                worst, detail = "panic", r.get("panic") or r.get("obs_panic")
        new = [r for r in rs if r.get("op") == "new"]
        key = "%s/%s" % (kind, worst if worst != "ok" else (new[0].get("res") if new else "none"))
        outcomes[key] = outcomes.get(key, 0) + 1
        if worst != "ok":
            loc = (detail or "").split("@")[-1].strip().replace("/repo/", "") if worst == "panic" else "process"
            bad.append(dict(fp="Doc.%s@%s/%s" % (worst, loc, flavour), kind=kind, doc=mt[:2000], source=pid, detail=detail))
    return len(meta), bad, outcomes


def run(tier, seed):
    t0 = time.time()
    wd = lib.workdir("C15")
    lib.build("debug")
    lib.build("stream")
    quick = tier == "quick"
    known = {k["fp"]: k for k in lib.known_findings() if k["prop"] == "C15"}
    nviol = 0
    seen_known = set()
    tot_docs = 0
    all_outcomes = {}
    per_fp = {}
    for fl in ("debug", "stream"):
        n, bad, outcomes = story_mutants(tier, seed, wd, fl)
        tot_docs += n
        all_outcomes[fl] = outcomes
        for b in bad:
            if b["fp"] in known:
                if b["fp"] not in seen_known:
                    seen_known.add(b["fp"])
                    print("KNOWN-FINDING: property=C15 %s %s" % (b["fp"], known[b["fp"]]["text"]))
                continue
            per_fp[b["fp"]] = per_fp.get(b["fp"], 0) + 1
            nviol += 1
            if per_fp[b["fp"]] <= 1:
                path = lib.write_replay("C15", dict(fingerprint=b["fp"], loader=fl, mutation=b["kind"], document=b["doc"],
                                                    source=b["source"], detail=b["detail"]))
                print("VIOLATION property=C15 replay=%s" % path)
    if per_fp:
        lib.log("[C15] document mutants: violation fingerprints %s" % json.dumps(per_fp)[:2500])
    lib.log("[C15] document mutants: %d, outcomes %s" % (tot_docs, json.dumps(all_outcomes)[:600]))
    # saves
    progs = common.gen_programs(16 if quick else 150, seed, vars=3, lists=1.0, threads=1.0, tunnels=1.5)
    corpus = [c for c in common.corpus_programs() if "TheIntercept" not in c["id"]]
    random.Random(seed).shuffle(corpus)
    progs += corpus[: (8 if quick else 60)]
    nviol += runner.run_relational(
        "C15", progs, BuildSaves(tier, seed), tier, seed, "fault_enumeration",
        rule="structural and textual mutants of (a) story documents of the corpus under both loaders: %d documents, outcome must "
             "be ok or err, a few calls afterwards must not panic; (b) save documents taken at explored points: load_state of the "
             "mutant (any result but a panic), a few calls, then reset_state and a complete base path in lockstep with the base "
             "run; non-trivial: the mutant was actually handed to the loader" % tot_docs,
        ex_kw=dict(depth=3, max_paths=8), case_kw=dict(nopanic=True, probed=True),
        extra_cov=dict(document_mutants=tot_docs, document_outcomes=all_outcomes),
        assumptions=["each attempt runs under catch_unwind; an abnormal process exit is attributed to the running case"])
    # fold the document part into the evidence counts
    import os
    evp = os.path.join(lib.VERIF, "evidence", "C15.json")
    ev = json.load(open(evp))
    ev["coverage"]["evaluations"] += tot_docs
    ev["coverage"]["distinct_nontrivial"] += tot_docs
    ev["violations"] = nviol
    ev["wall_s"] = round(time.time() - t0, 2)
    json.dump(ev, open(evp, "w"), indent=1, sort_keys=True)
    return nviol
