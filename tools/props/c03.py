"""C03 — play is a deterministic function of program, seed and host calls.

Base runs: the choice tree of every program explored once (debug build, one process).  Every explored
path is then replayed (i) by two interleaved instances inside one further process, (ii) in two more
separate processes (each process and each HashMap has fresh hash seeds), (iii) by the release build.
TLC validates every replay against the reference system built from the base run (InkHostAbs rule
Valid): result and error text, text, tags, choices, every global, visit counts, the key-sorted save
document, callbacks.  Compiler determinism: the compiled JSON of every source is hashed in every
process; all hashes of one source must agree."""
import hashlib
import json
import random
import time

import common
import lib
import relational
import runner


class Build:
    def __init__(self, tier, seed, twin):
        self.tier = tier
        self.twin = twin

    def prelude(self, p):
        ops = [{"op": "observe", "obs": 1, "var": v} for v in (p.get("globals") or [])[:6]]
        if p.get("unbound_probe"):
            return ops
        ops.append({"op": "set_fallbacks", "v": True})
        return ops

    def cases(self, ex, trails, batch):
        out = []
        root = trails[()][0]
        for p in sorted(ex.paths):
            if any(q[:len(p)] == p and len(q) > len(p) for q in ex.paths):
                continue
            ops = ex.paths[p]["ops"]
            if self.twin:
                script = []
                for o in ops:
                    script.append(dict(o, on=0))
                    script.append(dict(o, on=1))
            else:
                script = list(ops)
            out.append(runner.CaseSpec(
                key="%s|%s" % (ex.prog["id"], list(p)), scenario=common.scenario(0, ex.prog, script), root=root,
                info=dict(path=list(p), twin=self.twin),
                nontrivial=lambda rs: sum(1 for x in rs if x.get("op") == "cont" and x.get("res") == "ok") >= 2))
        return out


def compile_hashes(progs, wd, flavour, name):
    scs = [{"case": i, "programs": [common.prog_spec(p)], "echo_json": True, "script": []} for i, p in enumerate(progs)]
    out = {}
    for r in lib.run_inkdrive(scs, wd, name=name, flavour=flavour):
        if r.get("op") == "programs":
            pr = r["programs"][0]
            out[r["case"]] = hashlib.sha256((pr.get("json") or "ERR:" + str(pr.get("compile_error"))).encode()).hexdigest()
    return out


FIXED_DRAWS = """LIST L0 = (ap), (aq), ar
LIST L1 = (bp), bq
LIST Kettle = cold, warm, ready
LIST Guest = away, ready, seated, fed
VAR lmix = ()
VAR n = 0
VAR now = ready
-> k0
== k0 ==
~ lmix = (ap, bp)
{now}: {LIST_VALUE(now)} {LIST_ALL(now)} {now + 1}
{LIST_RANDOM(L0)} {LIST_RANDOM(L1)} {LIST_RANDOM(lmix)} {LIST_MIN(lmix)} {LIST_MAX(lmix)} {RANDOM(1, 6)}
{~one|two|three} {LIST_RANDOM(L0 + ar)}
* [again]
    ~ n = n + 1
    {LIST_RANDOM(L0)} {LIST_COUNT(LIST_RANDOM(L0 + ar))} {~x|y}
    -> k1
* [stop]
    {LIST_RANDOM(lmix)}
    -> END
== k1 ==
{LIST_RANDOM(L0)} {LIST_RANDOM(L1 + bq)} {RANDOM(0, 9)}
* [more]
    {LIST_RANDOM(lmix)} {LIST_MIN(L0)} {LIST_MAX(L1 + bq)}
    -> END
* [end]
    -> END
"""


def run(tier, seed):
    t0 = time.time()
    quick = tier == "quick"
    n = 24 if quick else 400
    progs = (common.gen_programs(n // 2, seed, vars=6, lists=2.0, random=2.0, shuffles=2.0, strings=1.0) +
             common.gen_programs(n // 4, seed + 1, vars=8, externals=2.0, lists=1.0) +
             common.gen_programs(n - n // 2 - n // 4, seed + 2, vars=4))
    # several unbound externals, fallbacks disabled: the first continue fails with a message listing their names
    for g in common.gen_programs(4 if quick else 40, seed + 3, vars=2, externals=2.0, ext_count=5, knots=1):
        g["unbound_probe"] = True
        g["id"] += "-unbound"
        progs.append(g)
    # one fixed story that draws from non-empty lists on every path (and names, unqualified, an item that two lists declare) (whatever the generator's dice say: a draw that is
    # wrong in one build profile only must show under every VERIF_SEED)
    fixed = dict(common.gen_programs(1, seed + 4, vars=1)[0])
    fixed.update(id="c03-fixed-draws", lists=[], src=FIXED_DRAWS, globals=["lmix", "n", "now"], ints=["n"], bools=[], strs=[], externals=[], flows=[])
    progs.append(fixed)
    corpus = [c for c in common.corpus_programs() if any(k in c["id"] for k in ("lists/", "shuffle", "rnd", "random"))]
    progs += corpus if not quick else corpus[:8]
    nviol = 0
    ex_kw = dict(depth=3 if quick else 5, max_paths=8 if quick else 40)
    plan = [("debug", True, "two interleaved instances in one process"), ("debug", False, "a separate process"),
            ("debug", False, "another separate process"), ("release", False, "the release build")]
    for flavour, twin, what in plan:
        # base always explored by the debug build in its own process; probe in `flavour`
        nviol += run_one(progs, Build(tier, seed, twin), tier, seed, ex_kw, flavour, what)
    # compiler determinism across processes and build profiles
    srcs = [p for p in progs if "src" in p] + [dict(inkfile=c["inkfile"], id=c["id"]) for c in corpus]
    wd = lib.workdir("C03")
    hs = [compile_hashes(srcs, wd, fl, "compile%d" % i) for i, fl in enumerate(["debug", "debug", "debug", "release", "release"])]
    bad = [i for i in range(len(srcs)) if len(set(h.get(i) for h in hs)) != 1]
    for i in bad[:3]:
        path = lib.write_replay("C03", dict(kind="compile", program=common.prog_spec(srcs[i]), hashes=[h.get(i) for h in hs]))
        print("VIOLATION property=C03 replay=%s" % path)
    nviol += len(bad)
    # amend the evidence written by the relational part
    import os
    evp = os.path.join(lib.VERIF, "evidence", "C03.json")
    ev = json.load(open(evp))
    ev["coverage"]["compile_determinism"] = dict(sources=len(srcs), processes=5, disagreements=len(bad))
    ev["violations"] = nviol
    ev["wall_s"] = round(time.time() - t0, 2)
    json.dump(ev, open(evp, "w"), indent=1, sort_keys=True)
    return nviol


def run_one(progs, build, tier, seed, ex_kw, flavour, what):
    """like runner.run_relational, but the probes run in another build flavour than the base (explored with the debug
    build).  The override is a process-wide setting read by lib.run_inkdrive - the chunks run in threads, a patched
    function swapped in and out per chunk was a race: now and then a "release" probe ran in the debug build."""
    lib.build(flavour)
    lib.PROBE_FLAVOUR = flavour
    try:
        return runner.run_relational(
            "C03", progs, build, tier, seed, "model_checking",
            rule="generated programs (multi-origin lists with equal item values, LIST_MIN/MAX/RANDOM, LIST_ALL/INVERT, "
                 "shuffles, RANDOM, many globals, unbound externals) and corpus list/shuffle/random stories x every explored "
                 "path replayed by %s; non-trivial: the path produced at least two lines" % what,
            ex_kw=ex_kw, jobs=1 if flavour != "debug" else 6, case_kw=dict(probed=True),
            assumptions=["the story seed is set by the harness (hook); hash seeds differ per process and per map"])
    finally:
        lib.PROBE_FLAVOUR = None
