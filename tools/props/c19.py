"""C19 — every piece of story content is addressable by its own path.

The implementation's content audit (hook) of every corpus story (reference-compiled and compiled by
this compiler) and of compiled generated programs is validated by TLC against the path algebra
InkPath: reported path text = PathText(PathOf(object)); it resolves back to the very object without
approximation; text -> parse -> text/equality/hash agree; for pairs of nearby and random objects the
relative path equals ToRelative, resolves to the target, and survives the text round trip with equal
hash; every position written into save documents along explored paths (container path + index,
previous-content path, choice paths) denotes existing content."""
import json
import os
import random
import re
import time

import common
import lib


def comps(text):
    """the path text format: '.'-separated, digits = index, leading '.' = relative"""
    rel = text.startswith(".")
    if rel:
        text = text[1:]
    if text == "":
        return rel, []
    out = []
    for c in text.split("."):
        out.append({"k": "i", "v": int(c)} if re.fullmatch(r"[0-9]+", c) else {"k": "n", "v": c})
    return rel, out


def rows_for_tlc(audit, positions):
    rows = audit["rows"]
    n = len(rows)
    cx = {i: [] for i in range(n)}
    cn = {i: {} for i in range(n)}
    for w in rows:
        if w["p"] is not None:
            if w["x"] is not None:
                cx[w["p"]].append((w["x"], w["i"]))
            if w["n"] and w["k"] == "Container":
                cn[w["p"]][w["n"]] = w["i"] + 1
    out = [dict(kind="doc", n=n)]
    for w in rows:
        i = w["i"]
        out.append(dict(kind="node", id=i + 1, p=(w["p"] + 1) if w["p"] is not None else 0,
                        x=w["x"] if w["x"] is not None else -1, n=w["n"] or "", isC=w["k"] == "Container",
                        cx=[j + 1 for _x, j in sorted(cx[i])], cn=cn[i], path=w["path"], self=w["self"],
                        approx=w["approx"], re=w["re"], rerel=w["rerel"], reeq=w["reeq"], heq=w["heq"]))
    for w in audit["rel"]:
        out.append(dict(kind="rel", a=w["a"] + 1, b=w["b"] + 1, rel=w["rel"], isrel=w["isrel"], ok=w["ok"], re=w["re"],
                        reeq=w["reeq"], heq=w["heq"], peq=w.get("peq", False), pheq=w.get("pheq", False)))
    for (text, idx) in positions:
        _rel, cs = comps(text)
        out.append(dict(kind="pos", path=cs, idx=idx, text=text))
    return out


def save_positions(recs):
    pos = set()
    for r in recs:
        sv = (r.get("obs") or {}).get("save") or {}
        for fl in (sv.get("flows") or {}).values():
            for th in (fl.get("callstack") or {}).get("threads", []) + list((fl.get("choiceThreads") or {}).values()):
                for el in th.get("callstack", []):
                    if "cPath" in el:
                        pos.add((el["cPath"], el.get("idx", -1)))
                if th.get("previousContentObject"):
                    pos.add((th["previousContentObject"], -1))
            for ch in fl.get("currentChoices", []):
                pos.add((ch.get("targetPath", ""), -1))
                pos.add((ch.get("originalChoicePath", ""), -1))
    return sorted(pos)


def run(tier, seed):
    t0 = time.time()
    quick = tier == "quick"
    wd = lib.workdir("C19")
    lib.build("debug")
    corpus = common.corpus_programs()
    progs = []
    for c in corpus:
        progs.append(dict(id=c["id"] + "#ref", spec={"file": c["file"]}))
        progs.append(dict(id=c["id"] + "#rust", spec={"inkfile": c["inkfile"]}))
    for g in common.gen_programs(40 if quick else 400, seed, vars=3, lists=0.5, threads=1.0):
        progs.append(dict(id=g["id"], spec={"ink": g["src"]}))
    scs = []
    for i, p in enumerate(progs):
        big = "TheIntercept" in p["id"]
        scs.append({"case": i, "programs": [p["spec"]], "seed": 7, "fuel": 200000, "obs": {"vars": False, "visits": False},
                    "script": [{"op": "new"}, {"op": "audit", "span": 4, "random_pairs": 300 if not quick else 120,
                                               "max_from": 400 if quick else 4000, "pair_seed": seed},
                               {"op": "set_fallbacks", "v": True}, {"op": "turn"}, {"op": "choose", "i": 0}, {"op": "turn"},
                               {"op": "choose", "i": 0}, {"op": "turn"}]})
    recs = lib.run_inkdrive(scs, wd, name="audit", timeout=1800)
    bc = lib.by_case(recs)
    rows = []
    index = []       # (first row, last row, program)
    dropped = 0
    objects = 0
    pairs = 0
    npos = 0
    for i, p in enumerate(progs):
        rs = bc.get(json.dumps(i), [])
        aud = [r for r in rs if r.get("op") == "audit" and r.get("res") == "ok"]
        if not aud:
            dropped += 1
            continue
        pos = save_positions(rs)
        doc = rows_for_tlc(aud[0]["val"], pos)
        index.append((len(rows) + 1, len(rows) + len(doc), p, doc))
        rows += doc
        objects += len(aud[0]["val"]["rows"])
        pairs += len(aud[0]["val"]["rel"])
        npos += len(pos)
    path = os.path.join(wd, "audit.ndjson")
    with open(path, "w") as f:
        for r in rows:
            f.write(json.dumps(r) + "\n")
    res = lib.run_tlc("InkPathAudit", "InkPathAudit.cfg", wd, env_extra=dict(AUDIT=path), workers=1, timeout=3000, xmx="8g")
    m = re.search(r'<<"CONSUMED", (\d+), (\d+)>>', res["out"])
    if not m or m.group(1) != m.group(2):
        raise lib.ToolError("InkPathAudit did not consume the audit:\n" + "\n".join(res["out"].splitlines()[-30:]))
    known = {k["fp"]: k for k in lib.known_findings() if k["prop"] == "C19"}
    seen_known, nviol, per_rule = set(), 0, {}
    for line in lib.tlc_prints(res["out"], "MISMATCH"):
        mm = re.match(r'<<"MISMATCH", (\d+), "([^"]*)">>', line)
        l, rule = int(mm.group(1)), mm.group(2)
        per_rule[rule] = per_rule.get(rule, 0) + 1
        if rule in known:
            if rule not in seen_known:
                seen_known.add(rule)
                print("KNOWN-FINDING: property=C19 %s %s" % (rule, known[rule]["text"]))
            continue
        nviol += 1
        if per_rule[rule] <= 2:
            prog = next((p for (a, b, p, d) in index if a <= l <= b), None)
            rp = lib.write_replay("C19", dict(rule=rule, program=prog["spec"] if prog else None, row=rows[l - 1],
                                              fingerprint=rule))
            print("VIOLATION property=C19 replay=%s" % rp)
    lib.log("[C19] documents=%d objects=%d pairs=%d positions=%d mismatches=%s wall=%.1fs" % (
        len(index), objects, pairs, npos, per_rule, time.time() - t0))
    cov = dict(states=max(1, res["distinct"]), transitions=max(1, res["states"]), traces_validated_against_impl=len(index),
               samples=[dict(program=index[0][2]["id"], first_rows=index[0][3][1:4])] if index else [{}],
               evaluations=objects + pairs + npos, distinct_nontrivial=objects,
               rule="every object of every corpus story (both compilers) and of generated programs; relative paths between "
                    "objects at ordinal distance <= 4, parent/grandparent, and random pairs; positions in saves along one "
                    "explored path; non-trivial: every object row",
               documents=len(index), documents_dropped=dropped, objects=objects, relative_pairs=pairs, save_positions=npos,
               mismatches_by_rule=per_rule, known_findings_seen=sorted(seen_known), exhaustive=False)
    lib.write_evidence("C19", tier, seed, "model_checking", cov, time.time() - t0, nviol,
                       ["the tree structure (parent, index, name) is the one reported by the audit hook",
                        "path text is split into components by the converter ('.' separated, digits = index)"])
    return nviol
