"""C07 — expressions over numbers, strings and lists evaluate as Ink specifies.

spec -> impl: TLC enumerates expression trees over named leaves together with their values under
spec/InkValue.tla (every unary and binary operator over every pair of leaves; a deterministic slice of
the depth-2 trees); each is rendered into `~ r = expr` and `{expr}`, compiled and played; the stored
value (type and value, list items and — for empty lists — origins) and the printed text must equal the
specification's.  Where the rules leave a tie open the specification gives the admissible set."""
import json
import time

import exprs
import lib


def fingerprint(case, outcome):
    return "%s/%s" % (exprs.classify(case["e"]), outcome["kind"])


def report(prop, results, known_prop=None):
    known = {k["fp"]: k for k in lib.known_findings() if k["prop"] == prop}
    seen_known, per_fp, nviol = set(), {}, 0
    for c, o in results:
        if o["kind"] in ("ok", "skipped"):
            continue
        fp = fingerprint(c, o)
        # a fingerprint may be listed with a trailing * for a family (e.g. "/:int:int/panic")
        if fp in known:
            if fp not in seen_known:
                seen_known.add(fp)
                print("KNOWN-FINDING: property=%s %s %s" % (prop, fp, known[fp]["text"]))
            continue
        per_fp[fp] = per_fp.get(fp, 0) + 1
        nviol += 1
        if per_fp[fp] <= 1 and len(per_fp) <= 40:
            path = lib.write_replay(prop, dict(fingerprint=fp, expression=exprs.render(c["e"]), tree=c["e"], expected=c["r"],
                                               outcome=o, story=exprs.story([c])))
            print("VIOLATION property=%s replay=%s" % (prop, path))
    if per_fp:
        lib.log("[%s] violation fingerprints: %s" % (prop, json.dumps(per_fp)[:3000]))
    return nviol, sorted(seen_known), per_fp


def run(tier, seed):
    t0 = time.time()
    wd = lib.workdir("C07")
    lib.build("debug")
    quick = tier == "quick"
    plan = [(1, "small", 0, 1), (1, "lists", 0, 1)] if quick else [(1, "full", 0, 1), (2, "small", seed % 7, 7), (2, "lists", seed % 5, 5)]
    if quick:
        plan.append((2, "small", seed % 60, 60))
    # unary operators under and over binary ones (precedence of not / minus)
    plan.append((3, "small", seed % 3, 3) if quick else (3, "full", seed % 2, 2))
    cases, states, trans = [], 0, 0
    for depth, pool, sl, mod in plan:
        cs, res = exprs.tlc_exprs(wd, depth, pool, sl, mod)
        cases += cs
        states += res["distinct"]
        trans += res["states"]
    # distinct expressions only
    seen, uniq = set(), []
    for c in cases:
        k = json.dumps(c["e"], sort_keys=True)
        if k not in seen:
            seen.add(k)
            uniq.append(c)
    results = exprs.run_cases(uniq, wd, "debug", name="c07")
    # keyword forms of the operators (and or not has hasnt mod) on a part of the cases
    alt = [c for i, c in enumerate(uniq) if i % 5 == 0 and c["r"]["t"] not in ("error", "unspec")]
    results += exprs.run_cases(alt, wd, "debug", name="c07alt", alt=True)
    # operator precedence: the same trees written with the parentheses left out wherever precedence gives the grouping
    # anyway (only the pairs of operators on which Ink's table and the usual one agree, see exprs.render)
    bare = [c for c in uniq if c["r"]["t"] not in ("error", "unspec") and exprs.render(c["e"], "bare") != exprs.render(c["e"])]
    results += exprs.run_cases(bare, wd, "debug", name="c07bare", profile="bare")
    nviol, seen_known, per_fp = report("C07", [(c, o) for c, o in results if o["kind"] != "panic" or True])
    kinds = {}
    for c, o in results:
        kinds[o["kind"]] = kinds.get(o["kind"], 0) + 1
    nontrivial = len(set(json.dumps(c["e"], sort_keys=True) for c, o in results if c["e"]["k"] != "v" and o["kind"] != "skipped"))
    sample = [dict(expression=exprs.render(c["e"]), expected=c["r"], outcome=o["kind"]) for c, o in results[:3]]
    cov = dict(states=max(1, states), transitions=max(1, trans), traces_validated_against_impl=len(results), samples=sample,
               evaluations=len(results), distinct_nontrivial=nontrivial,
               rule="TLC-enumerated expression trees (depth 1: all operators over all pairs of leaves of the pool; depth 2: a "
                    "deterministic slice) over int (incl. boundary values), bool, dyadic float, string and list leaves from "
                    "three LIST declarations sharing item values; non-trivial: an operator application whose value the "
                    "specification defines (not 'unspec')",
               outcomes=kinds, known_findings_seen=seen_known, exhaustive=not quick,
               plan=[dict(depth=d, pool=p, slice=s, of=m) for d, p, s, m in plan])
    lib.write_evidence("C07", tier, seed, "model_checking", cov, time.time() - t0, nviol,
                       ["floats only where exactly representable (dyadic, < 2^24); float remainder, float-to-text inside "
                        "string concatenation, POW outside small integers and random functions are 'unspec' (no claim)",
                        "leaves are story variables; list leaves are initialised by assignment"])
    lib.log("[C07] expressions=%d outcomes=%s violations=%d wall=%.1fs" % (len(uniq), kinds, nviol, time.time() - t0))
    return nviol
