"""C04 — story faults are reported as errors; the runtime never panics; 32-bit wrap-around.

(1) spec -> impl: TLC enumerates arithmetic expression trees over the 32-bit boundary pool with their values
    under spec/Int32.tla / InkValue.tla (+ - * unary minus wrap; / and % truncate, a zero divisor and MIN / -1
    are story errors); each is compiled and played by the DEBUG and by the RELEASE build; value, printed text
    and 'an error was reported, nothing panicked' must equal the specification in both.
(2) impl -> spec: generated programs with fault-prone expressions and source-level mutants of the corpus that
    still compile are driven by random host-call histories (continues, valid and invalid choices, path jumps,
    flow switches and removals, save/load, host evaluations, host assignments of other types, time-limited
    continues); TLC validates: no call ends in a panic or abort (rule Fault.panic), and after the history
    reset_state returns to the home position of the reference system: a complete base path then plays exactly
    as in the base run (InkHostAbs rule ResetA)."""
import json
import os
import random
import re
import time

import common
import exprs
import lib
import runner
from props import c07


class Build:
    def __init__(self, tier, seed):
        self.tier = tier
        self.rnd = random.Random(seed)

    def prelude(self, p):
        # observers: what follows reset_state is compared with the base run including the notifications
        return [{"op": "observe", "obs": 1, "var": v} for v in (p.get("ints") or [])[:3]] + [{"op": "set_fallbacks", "v": True}]

    def cases(self, ex, trails, batch):
        out = []
        r = self.rnd
        paths = sorted(ex.paths)
        if not paths:
            return out
        root = trails[()][0]
        knots = [k for k in ex.header["containers"] if "." not in k] or ["nosuch"]
        gl = ex.header["globals"] or ["nosuch"]
        fns = [f["name"] for f in ex.prog.get("functions", [])] or ["nosuch"]
        for ci in range(4 if self.tier == "quick" else 12):
            hist = [o for o in ex.paths[paths[0]]["ops"] if o["op"] in ("new", "observe", "set_fallbacks")]
            for _ in range(r.randint(4, 14)):
                c = r.random()
                if c < 0.3:
                    hist.append({"op": "cont", "cls": "free"})
                elif c < 0.4:
                    hist.append({"op": "turn", "cls": "free"})
                elif c < 0.55:
                    hist.append({"op": "choose", "i": r.choice([0, 0, 1, 2, 7]), "cls": "free"})
                elif c < 0.62:
                    hist.append({"op": "choose_path", "path": r.choice(knots + ["nosuch"]), "reset": r.random() < 0.5, "cls": "free"})
                elif c < 0.68:
                    hist.append({"op": "switch_flow", "name": r.choice(["fa", "fb", "DEFAULT_FLOW"]), "cls": "free"})
                elif c < 0.71:
                    hist.append({"op": "remove_flow", "name": r.choice(["fa", "fb"]), "cls": "free"})
                elif c < 0.76:
                    hist.append({"op": "save", "slot": "s", "cls": "free"})
                elif c < 0.8:
                    hist.append({"op": "load", "slot": "s", "cls": "free"})
                elif c < 0.86:
                    hist.append({"op": "eval_fn", "name": r.choice(fns), "args": [r.choice([0, 1, 5, "x", True])], "cls": "free"})
                elif c < 0.92:
                    hist.append({"op": "set_var", "name": r.choice(gl), "value": r.choice([0, -1, 2147483647, "str", True, 2.5]), "cls": "free"})
                elif c < 0.96:
                    hist.append({"op": "cont_async", "budget": r.randint(1, 5), "cls": "free"})
                else:
                    hist.append({"op": "cont_max", "cls": "free"})
            q = r.choice(paths)
            after = [o for o in ex.paths[q]["ops"] if o["op"] not in ("new", "set_fallbacks", "observe")]
            script = hist + [{"op": "cont", "cls": "free", "note": "finish any unfinished slice"}, {"op": "reset"}] + after
            out.append(runner.CaseSpec(
                key="%s|hist%d|%s" % (ex.prog["id"], ci, list(q)), scenario=common.scenario(0, ex.prog, script), root=root,
                info=dict(after_path=list(q)),
                nontrivial=lambda rs: any(x.get("res") == "err" or (x.get("obs") or {}).get("errors") for x in rs)))
        return out


def mutants(seed, n):
    """source-level mutants of corpus stories (operator swaps, literals to 0 / MAX, dropped terminators)"""
    r = random.Random(seed)
    out = []
    corpus = [c for c in common.corpus_programs() if "TheIntercept" not in c["id"] and "include" not in c["id"]]
    for i in range(n):
        c = r.choice(corpus)
        src = open(c["inkfile"], encoding="utf-8-sig").read()
        lines = src.split("\n")
        for _ in range(r.randint(1, 3)):
            k = r.randrange(len(lines))
            ln = lines[k]
            m = r.random()
            if m < 0.3:
                ln = re.sub(r"(?<=[\w)\s])([+\-*/%])(?=[\s\w(])", lambda mm: r.choice("+-*/%"), ln, count=1)
            elif m < 0.55:
                ln = re.sub(r"\b\d+\b", lambda mm: r.choice(["0", "2147483647", "1"]), ln, count=1)
            elif m < 0.7 and re.search(r"->\s*(DONE|END)", ln):
                ln = ""
            elif m < 0.8 and "return" in ln:
                ln = ""
            elif m < 0.9:
                ln = ln.replace("==", "!=", 1) if "==" in ln else ln.replace("<", ">", 1)
            else:
                ln = ln.replace("->->", "", 1)
            lines[k] = ln
        out.append(dict(id="mutant-%d:%s" % (i, c["id"]), src="\n".join(lines), ints=[], bools=[], strs=[], functions=[],
                        externals=[], flows=[], knots=[], globals=[]))
    return out


OPERANDS = [("int", "3"), ("zero", "0"), ("float", "1.5"), ("string", '"a"'), ("bool", "true"), ("list item", "c"), ("list literal", "(red, blue)"),
            ("empty list", "()"), ("divert target", "t"), ("void", "nothing()"), ("read count", "k"), ("other list", "(one)")]
BINOPS = ["+", "-", "*", "/", "%", "==", "!=", "<", ">", "<=", ">=", "&&", "||", "?", "!?", "^"]


def operand_faults(tier, seed, wd):
    """every binary operator over every pair of operand KINDS (a value of each type, a void function result, a divert
    target, lists of one and of two origins), and the unary ones: whatever the story does with them - a value, a runtime
    error - it must not panic, and a reset must bring it back (the pairs of numbers are enumerated by TLC above; this
    family is about the kinds)."""
    rnd = random.Random(seed)
    pairs = [(a, op, b) for a in OPERANDS for op in BINOPS for b in OPERANDS if "void" in (a[0], b[0]) or "list" in a[0] + b[0] or "divert" in a[0] + b[0]]
    rnd.shuffle(pairs)
    pairs = pairs[:150] if tier == "quick" else pairs
    exprs_ = ["%s %s %s" % (a[1], op, b[1]) for a, op, b in pairs]
    exprs_ += ["%s%s" % (u, a[1]) for u in ("-", "not ") for a in OPERANDS]
    exprs_ += ["%s(%s)" % (f, a[1]) for f in ("INT", "FLOAT", "FLOOR", "LIST_COUNT", "LIST_MIN", "LIST_VALUE", "LIST_INVERT") for a in OPERANDS]
    scs = []
    for i, e in enumerate(exprs_):
        src = ("LIST colours = red, green, blue\nLIST nums = one, two\nVAR c = red\nVAR t = -> k\n-> k\n== k ==\nBefore.\n"
               "~ temp r = %s\nAfter {r}.\n-> END\n== function nothing() ==\n~ c = green\n" % e)
        scs.append({"case": i, "programs": [{"ink": src}], "allow_compile_error": True, "fuel": 2000, "obs": {"save": False, "vars": False, "visits": False},
                    "script": [{"op": "new"}, {"op": "turn"}, {"op": "reset"}, {"op": "cont"}]})
    bad, outcomes = [], {}
    for flavour in ("debug", "release"):
        for r in lib.run_inkdrive(scs, wd, name="operands-" + flavour, flavour=flavour, timeout=600):
            if r.get("op") == "programs":
                if r["programs"][0].get("compile_error"):
                    outcomes["compile error"] = outcomes.get("compile error", 0) + 1
                continue
            if r.get("res") == "panic" or r.get("op") == "abort" or "obs_panic" in r:
                bad.append(dict(expression=exprs_[r["case"]], build=flavour, detail=r.get("panic") or r.get("obs_panic") or r.get("stderr"), op=r.get("op")))
            elif r.get("op") == "cont":
                k = "error" if (r.get("obs") or {}).get("errors") or r.get("res") == "err" else "value"
                outcomes[k] = outcomes.get(k, 0) + 1
    return exprs_, bad, outcomes


def run(tier, seed):
    t0 = time.time()
    quick = tier == "quick"
    wd = lib.workdir("C04")
    lib.build("debug")
    lib.build("release")
    # (1) arithmetic, both build profiles
    plan = [(1, "arith", 0, 1), (2, "arith", seed % 11, 11)] if quick else [(1, "arith", 0, 1), (2, "arith", 0, 1)]
    cases, states, trans = [], 0, 0
    for depth, pool, sl, mod in plan:
        cs, res = exprs.tlc_exprs(wd, depth, pool, sl, mod)
        cases += cs
        states += res["distinct"]
        trans += res["states"]
    seen, uniq = set(), []
    for c in cases:
        k = json.dumps(c["e"], sort_keys=True)
        if k not in seen:
            seen.add(k)
            uniq.append(c)
    results = []
    for fl in ("debug", "release"):
        for c, o in exprs.run_cases(uniq, wd, fl, name="c04"):
            o["build"] = fl
            results.append((c, o))
    nviol, seen_known, per_fp = c07.report("C04", results)
    kinds = {}
    for c, o in results:
        kinds["%s/%s" % (o["build"], o["kind"])] = kinds.get("%s/%s" % (o["build"], o["kind"]), 0) + 1
    lib.log("[C04] arithmetic: expressions=%d x 2 builds, outcomes=%s" % (len(uniq), kinds))
    design = dict(states=states, distinct=states, expressions=len(uniq), outcomes=kinds)
    # (1b) operand kinds
    ex_, bad, oc = operand_faults(tier, seed, wd)
    known = {k["fp"]: k for k in lib.known_findings() if k["prop"] == "C04"}
    seen_fp = {}
    for b_ in bad:
        where = re.search(r"@ (\S+)", b_["detail"] or "")
        fp = "Fault.panic/operands@%s" % (where.group(1).replace("/repo/", "") if where else "?")
        if fp in known:
            if fp not in seen_fp:
                print("KNOWN-FINDING: property=C04 %s %s" % (fp, known[fp]["text"]))
            seen_fp[fp] = seen_fp.get(fp, 0) + 1
            continue
        seen_fp[fp] = seen_fp.get(fp, 0) + 1
        nviol += 1
        if seen_fp[fp] <= 2:
            print("VIOLATION property=C04 replay=%s" % lib.write_replay("C04", dict(fingerprint=fp, **b_)))
    lib.log("[C04] operand kinds: expressions=%d x 2 builds, outcomes=%s, panics=%s" % (len(ex_), oc, seen_fp))
    design["operand_kinds"] = dict(expressions=len(ex_), outcomes=oc, panics=seen_fp)
    # (2) histories
    n = 30 if quick else 400
    progs = (common.gen_programs(n // 2, seed, vars=3, faults=2.0, functions=1.5, seq_inline=1) +
             common.gen_programs(n // 4, seed + 1, vars=3, faults=1.0, lists=1.5, random=1.0, msgs=1.0) +
             mutants(seed, n - n // 2 - n // 4))
    nviol += runner.run_relational(
        "C04", progs, Build(tier, seed), tier, seed, "model_checking",
        rule="(1) TLC-enumerated arithmetic trees over the 32-bit boundary pool in debug and release builds; (2) generated "
             "programs with fault-prone expressions (division and modulo by variables, lists, RANDOM, error constructs, "
             "inline conditionals inside sequence branches) and source-level mutants of corpus stories x random host-call "
             "histories of 4-14 calls, then reset_state and a complete base path; non-trivial: an error was reported "
             "somewhere in the history",
        ex_kw=dict(depth=3 if quick else 4, max_paths=8 if quick else 30),
        case_kw=dict(nopanic=True, probed=True), design_stats=design,
        assumptions=["arithmetic: as for C07; histories: operations outside the reference system are only required not to "
                     "panic; what follows reset_state is compared in full with the base run"])
    return nviol
