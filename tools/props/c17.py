"""C17 — resetting a story is equivalent to constructing it afresh.

Any explored history (cut mid-line, at a choice, after an error, with flows, after a load or a jump,
with an unfinished time-limited continue), then reset_state, then a complete base path: TLC validates
against InkHostAbs (ResetA: position := home, a single default flow; registrations stay, so observer
notifications, external calls and handler deliveries after the reset must equal the base run's)."""
import random

import common
import lib
import runner

REG = ("new", "observe", "bind", "set_handler", "set_fallbacks")


class Build:
    def __init__(self, tier, seed):
        self.tier = tier
        self.rnd = random.Random(seed)

    def prelude(self, p):
        ops = [{"op": "observe", "obs": 1, "var": v} for v in p["ints"][:2]]
        for e in p["externals"]:
            ops.append({"op": "bind", "name": e["name"], "safe": True, "spec": e["spec"]})
        if self.rnd.random() < 0.5:
            ops.append({"op": "set_handler"})
        return ops

    def cases(self, ex, trails, batch):
        out = []
        paths = sorted(ex.paths)
        if not paths:
            return out
        root = trails[()][0]
        r = self.rnd
        n = 8 if self.tier == "quick" else 40
        knots = [k for k in ex.header["containers"] if "." not in k and not k.startswith("fn") and not k.startswith("ext")]
        for ci in range(n):
            p = r.choice(paths)
            ops = ex.paths[p]["ops"]
            nreg = len([o for o in ops if o["op"] in REG])
            cut = r.randint(nreg, len(ops))
            kind = r.choice(["plain", "plain", "async", "flow", "jump", "load", "setvar", "jumpreset", "jumpreset"])
            deep = common.deep_positions(ex.paths[p]["recs"], nreg)
            if deep and kind in ("jumpreset", "plain", "jump") and r.random() < 0.8:
                cut = r.choice(deep) + 1          # inside a thread / tunnel / function, or with choices pending
            hist = list(ops[:cut])
            tail = []
            if kind == "async" and cut < len(ops) and ops[cut]["op"] == "cont":
                tail = [{"op": "cont_async", "budget": 1}, {"op": "reset", "note": "must be refused while pending unless the slice finished"},
                        {"op": "cont", "note": "finish"}]
            elif kind == "flow":
                tail = [{"op": "switch_flow", "name": "side", "cls": "free"}, {"op": "cont", "cls": "free"},
                        {"op": "switch_flow", "name": "other", "cls": "free"}]
            elif kind == "jump" and knots:
                tail = [{"op": "choose_path", "path": r.choice(knots), "reset": r.random() < 0.5, "cls": "free"},
                        {"op": "cont", "cls": "free"}]
            elif kind == "jumpreset" and knots:
                tail = [{"op": "choose_path", "path": r.choice(knots), "reset": True, "cls": "jumpreset"},
                        {"op": "cont", "cls": "free"}]
            elif kind == "load":
                hist = list(ops[: max(nreg, cut // 2)]) + [{"op": "save", "slot": "s", "cls": "free"}] + list(ops[max(nreg, cut // 2):cut])
                tail = [{"op": "load", "slot": "s", "cls": "free"}]
            elif kind == "setvar" and ex.header["globals"]:
                g = [v for v in ex.header["globals"] if v.startswith("v")]
                if g:
                    tail = [{"op": "set_var", "name": r.choice(g), "value": 77, "cls": "free"}]
            q = r.choice(paths)
            after = [o for o in ex.paths[q]["ops"] if o["op"] not in REG]
            script = hist + tail + [{"op": "reset"}] + after
            out.append(runner.CaseSpec(
                key="%s|%s|%s|%d|%s" % (ex.prog["id"], kind, list(p), cut, list(q)),
                scenario=common.scenario(0, ex.prog, script), root=root,
                info=dict(kind=kind, history_path=list(p), cut=cut, after_path=list(q)),
                nontrivial=lambda rs: any(x["op"] == "reset" and x.get("res") == "ok" for x in rs) and cut > nreg))
        return out


def run(tier, seed):
    n = 40 if tier == "quick" else 500
    progs = common.gen_programs(n // 2, seed, vars=3) + common.gen_programs(n // 2, seed + 5, vars=3, externals=1.0)
    nviol = runner.run_relational(
        "C17", progs, Build(tier, seed), tier, seed, "model_checking",
        rule="generated programs (half with bound externals) x a random explored history cut at any point, optionally "
             "followed by an unfinished async slice, flow switches, a path jump, a load or a host assignment, then "
             "reset_state, then a complete explored path in lockstep with the fresh base run; non-trivial: the "
             "history before the reset made progress and the reset succeeded",
        ex_kw=dict(depth=3 if tier == "quick" else 5, max_paths=10 if tier == "quick" else 50),
        assumptions=["the harness re-applies the story seed after reset (verif hook); the property is stated for equal seeds"])
    # the same property against the executable model of the host interface (absolute oracle, Tier-S programs)
    import hostmodel
    nviol += hostmodel.check("C17", "reset", tier, seed)
    return nviol
