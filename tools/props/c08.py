"""C08 — how the host slices continuation never changes the story.

With the virtual clock (hook: a slice ends after a host-set number of interpreter steps) every `cont`
of explored base paths is replaced by time-limited continues: one pause at every position of the
line, a pause after every step, random multi-pause schedules.  Between slices the guarded calls are
issued.  TLC validates against InkHostAbs: an unfinished slice does not move the position and
accumulates callbacks (SliceF); guarded calls are Rejected; the completing slice is the continue itself
(FinishF): observation incl. save document, result and concatenated callbacks equal the unsliced run."""
import random

import common
import lib
import runner

REG = ("new", "observe", "bind", "set_handler", "set_fallbacks")

GUARDED = [
    {"op": "cont_max", "cls": "bad"},
    {"op": "get_text", "cls": "bad"},
    {"op": "get_tags", "cls": "bad"},
    {"op": "choose_path", "path": "k0", "reset": True, "cls": "bad"},
    {"op": "choose_path", "path": "k0", "reset": False, "cls": "bad"},
    {"op": "eval_fn", "name": "fn0", "args": [1], "cls": "bad"},
    {"op": "bind", "name": "other", "safe": True, "cls": "bad"},
    {"op": "unbind", "name": "zz", "cls": "bad"},
    {"op": "observe", "obs": 5, "var": "v0", "cls": "bad"},
    {"op": "remove_observer", "obs": 1, "var": "v0", "cls": "bad"},
    {"op": "reset", "cls": "bad"},
    {"op": "switch_flow", "name": "side", "cls": "bad"},
]


class Build:
    def __init__(self, tier, seed):
        self.tier = tier
        self.rnd = random.Random(seed)

    def prelude(self, p):
        ops = [{"op": "observe", "obs": 1, "var": v} for v in p["ints"][:3]]
        for i, e in enumerate(p["externals"]):
            ops.append({"op": "bind", "name": e["name"], "safe": i % 2 == 0, "spec": e["spec"]})
        ops.append({"op": "bind", "name": "zz", "safe": True})
        return ops

    def cases(self, ex, trails, batch):
        out = []
        paths = sorted(ex.paths, key=lambda t: (-len(ex.paths[t]["ops"]), t))
        if not paths:
            return out
        root = trails[()][0]
        r = self.rnd
        quick = self.tier == "quick"
        for p in paths[: (2 if quick else 6)]:
            ops, recs = ex.paths[p]["ops"], ex.paths[p]["recs"]
            steps = [0] * len(ops)
            prev = 0
            for i, rec in enumerate(recs):
                st = rec.get("steps", prev)
                steps[i] = max(0, st - prev)
                prev = st
            conts = [i for i, o in enumerate(ops) if o["op"] == "cont" and recs[i].get("res") == "ok"]
            if not conts:
                continue

            def emit(kind, script, nt):
                out.append(runner.CaseSpec(
                    key="%s|%s|%s|%d" % (ex.prog["id"], kind, list(p), len(out)),
                    scenario=common.scenario(0, ex.prog, script), root=root, info=dict(kind=kind, path=list(p)),
                    nontrivial=nt))
            strict = lambda rs: any(x["op"] == "cont_async" and x.get("res") == "ok" and not x.get("finished") for x in rs)
            # (1) a pause after every step, everywhere
            emit("every-step", [({"op": "slices", "budget": 1} if o["op"] == "cont" else o) for o in ops], strict)
            # (2) random budgets
            emit("random", [({"op": "slices", "budget": r.randint(1, 6)} if o["op"] == "cont" and r.random() < 0.7 else o) for o in ops], strict)
            # (3) one pause at every position of one line, with every guarded call in the gap
            cands = [i for i in conts if steps[i] >= 2]
            for i in (r.sample(cands, min(len(cands), 2 if quick else 6))):
                ks = list(range(1, min(steps[i], 80)))
                if quick:
                    ks = r.sample(ks, min(len(ks), 4))
                for k in ks:
                    gap = [dict(g) for g in GUARDED] if r.random() < 0.5 else [dict(r.choice(GUARDED))]
                    fin = [{"op": "cont"}] if r.random() < 0.5 else [{"op": "slices", "budget": 1000000}]
                    script = ops[:i] + [{"op": "cont_async", "budget": k}] + gap + fin + ops[i + 1:]
                    emit("one-pause", script, strict)
        return out


def run(tier, seed):
    n = 30 if tier == "quick" else 400
    progs = common.gen_programs(n // 2, seed, vars=3) + common.gen_programs(n - n // 2, seed + 9, vars=3, externals=1.5)
    nviol = runner.run_relational(
        "C08", progs, Build(tier, seed), tier, seed, "model_checking",
        rule="generated programs (half with safe and unsafe bound externals, all with observers) x explored paths x "
             "{pause after every step, random budgets, one pause at each step position of a line with the guarded calls "
             "issued in the gap, finished by cont() or by further slices}; non-trivial: at least one slice ended "
             "strictly inside a line",
        ex_kw=dict(depth=3 if tier == "quick" else 5, max_paths=8 if tier == "quick" else 40),
        case_kw=dict(cmpval=False),
        assumptions=["virtual clock hook: a slice ends after N interpreter steps instead of after N milliseconds"])
    # the same property against the executable model of the host interface (absolute oracle, Tier-S programs)
    import hostmodel
    nviol += hostmodel.check("C08", "slices", tier, seed)
    return nviol
