"""C05 — the Rust compiler agrees with the reference compiler on the corpus.

For each (source, reference-compiled story) pair of the conformance corpus: base runs explore the
REFERENCE-compiled story; every explored choice path is then replayed on the story produced by this
compiler (same runtime, same seed) and validated by TLC against InkHostAbs rule Valid: same result,
lines, tags, choices and global variable values after every operation."""
import os
import random

import common
import lib
import runner

CMP = ["can", "text", "tags", "choices", "vars"]


class Build:
    def __init__(self, tier, seed):
        self.tier = tier

    def prelude(self, p):
        return [{"op": "set_fallbacks", "v": True}]

    def cfg_for(self, ex):
        if "shuffle" in ex.prog["id"]:
            # compared modulo the shuffle: which alternative a shuffle picks depends on the container's path,
            # which the two compilers are free to choose differently
            return dict(mask=lambda comp, v: None if comp == "text" else v)
        return {}

    def cases(self, ex, trails, batch):
        out = []
        root = trails[()][0]
        subject = dict(inkfile=ex.prog["inkfile"], id=ex.prog["id"])
        for p in sorted(ex.paths):
            # only maximal explored paths: prefixes are contained in them
            if any(q[:len(p)] == p and len(q) > len(p) for q in ex.paths):
                continue
            out.append(runner.CaseSpec(
                key="%s|%s" % (ex.prog["id"], list(p)),
                scenario=common.scenario(0, subject, ex.paths[p]["ops"]), root=root,
                info=dict(path=list(p), fp=ex.prog["id"]),
                nontrivial=lambda rs: sum(1 for x in rs if x.get("op") == "cont" and x.get("res") == "ok") >= 1))
        return out


def shuffle_outcomes(tier, seed):
    """stories with shuffles: WHICH alternative a shuffle draws depends on the story seed and on the path of the
    sequence's container, which the two compilers need not choose alike - so the step-by-step comparison masks the
    text of these stories.  What must agree is the set of possible outcomes: the same fixed choice path is played
    under 256 story seeds on both stories, and for k = 1..4 turns the two SETS of line sequences of the first k turns have
    to be equal (a handful of alternatives: at most 18 outcomes for k = 4, each missed by 256 draws with probability
    < 1e-6; the seeds are fixed, so the result is deterministic)."""
    import json
    wd = lib.workdir("C05")
    progs = [c for c in common.corpus_programs() if "shuffle" in c["id"]]
    nseeds, depth = 256, 3
    scs = []
    for pi, p in enumerate(progs):
        for side, spec in (("ref", {"file": p["file"]}), ("own", {"inkfile": p["inkfile"]})):
            for sd in range(nseeds):
                script = [{"op": "new"}, {"op": "turn"}]
                for _ in range(depth):
                    script += [{"op": "choose", "i": 0, "mod": True}, {"op": "turn"}]
                scs.append({"case": [pi, side, sd], "programs": [spec], "seed": sd, "fuel": 20000,
                            "obs": {"save": False, "vars": False, "visits": False}, "script": script})
    recs = lib.run_inkdrive(scs, wd, name="shuffle", timeout=1800)
    outcomes = {}
    for key, rs in lib.by_case(recs).items():
        pi, side, sd = json.loads(key)
        if any(r.get("op") == "programs" and r["programs"][0].get("compile_error") for r in rs):
            continue
        turns = [[]]
        for r in rs:
            if r.get("op") == "cont" and r.get("res") == "ok":
                turns[-1].append(r.get("val"))
            elif r.get("op") == "choose":
                turns.append([])
        for k in range(1, len(turns) + 1):
            outcomes.setdefault((pi, side), set()).add(tuple(tuple(t) for t in turns[:k]))
    nviol, compared = 0, 0
    known = {k["fp"]: k for k in lib.known_findings() if k["prop"] == "C05"}
    for pi, p in enumerate(progs):
        ref, own = outcomes.get((pi, "ref")), outcomes.get((pi, "own"))
        if not ref or not own:
            continue
        compared += 1
        if ref != own:
            fp = "%s/Shuffle.outcomes" % p["id"]
            if fp in known:
                print("KNOWN-FINDING: property=C05 %s %s" % (fp, known[fp]["text"]))
                continue
            nviol += 1
            path = lib.write_replay("C05", dict(fingerprint=fp, story=p["inkfile"], reference=p["file"], seeds=nseeds,
                                                only_reference=sorted(ref - own)[:5], only_this_compiler=sorted(own - ref)[:5]))
            print("VIOLATION property=C05 replay=%s" % path)
    lib.log("[C05] shuffle stories compared by outcome sets: %d, violations=%d" % (compared, nviol))
    return nviol, compared


def run(tier, seed):
    quick = tier == "quick"
    corpus = common.corpus_programs()
    small = [c for c in corpus if "TheIntercept" not in c["id"]]
    big = [c for c in corpus if "TheIntercept" in c["id"]]
    nviol = runner.run_relational(
        "C05", small, Build(tier, seed), tier, seed, "translation_validation",
        rule="every corpus pair except The Intercept x every choice path (breadth-first, depth <= %d, <= %d paths) of the "
             "reference-compiled story replayed on this compiler's output; non-trivial: at least one line was produced" % (
                 (6, 60) if quick else (12, 3000)),
        ex_kw=dict(depth=6 if quick else 12, max_paths=60 if quick else 3000, obs=dict(save=False, visits=False)),
        case_kw=dict(cmp=CMP, cmpall=CMP, cmpcb=False, cmpsave=False, cmpval=False, probed=True), chunk=10,
        extra_cov=dict(programs=len(small) + len(big)),
        assumptions=["both stories run on the same runtime build with the same seed",
                     "unbound externals use their Ink fallbacks in both"])
    nviol += runner.run_relational(
        "C05", big, Build(tier, seed), tier, seed, "translation_validation",
        rule="The Intercept: breadth-first bounded (%s) plus %d random walks to the end of the story; shuffle stories "
             "additionally by outcome sets over 256 story seeds" % ("120 paths x depth 10" if quick else "5000 paths x depth 30",
                                                                      12 if quick else 150),
        ex_kw=dict(depth=10 if quick else 30, max_paths=120 if quick else 5000, obs=dict(save=False, visits=False), fuel=2000000,
                   walks=dict(n=12 if quick else 150, depth=120, seed=seed, rounds=3 if quick else 5)),
        case_kw=dict(cmp=CMP, cmpall=CMP, cmpcb=False, cmpsave=False, cmpval=False, probed=True),
        extra_cov=dict(programs=len(small) + len(big)))
    sv, compared = shuffle_outcomes(tier, seed)
    if sv:
        # the evidence file is written by run_relational: add the shuffle result to it
        import json
        path = os.path.join(lib.VERIF, "evidence", "C05.json")
        ev = json.load(open(path))
        ev["violations"] = ev.get("violations", 0) + sv
        json.dump(ev, open(path, "w"), indent=1, sort_keys=True)
    return nviol + sv
