"""C05 — the Rust compiler agrees with the reference compiler on the corpus.

For each (source, reference-compiled story) pair of the conformance corpus: base runs explore the
REFERENCE-compiled story; every explored choice path is then replayed on the story produced by this
compiler (same runtime, same seed) and validated by TLC against InkHostAbs rule Valid: same result,
lines, tags, choices and global variable values after every operation."""
import os
import random

import common
import lib
import runner

CMP = ["can", "text", "tags", "choices", "vars"]


class Build:
    def __init__(self, tier, seed):
        self.tier = tier

    def prelude(self, p):
        return [{"op": "set_fallbacks", "v": True}]

    def cfg_for(self, ex):
        if "shuffle" in ex.prog["id"]:
            # compared modulo the shuffle: which alternative a shuffle picks depends on the container's path,
            # which the two compilers are free to choose differently
            return dict(mask=lambda comp, v: None if comp == "text" else v)
        return {}

    def cases(self, ex, trails, batch):
        out = []
        root = trails[()][0]
        subject = dict(inkfile=ex.prog["inkfile"], id=ex.prog["id"])
        for p in sorted(ex.paths):
            # only maximal explored paths: prefixes are contained in them
            if any(q[:len(p)] == p and len(q) > len(p) for q in ex.paths):
                continue
            out.append(runner.CaseSpec(
                key="%s|%s" % (ex.prog["id"], list(p)),
                scenario=common.scenario(0, subject, ex.paths[p]["ops"]), root=root,
                info=dict(path=list(p), fp=ex.prog["id"]),
                nontrivial=lambda rs: sum(1 for x in rs if x.get("op") == "cont" and x.get("res") == "ok") >= 1))
        return out


def run(tier, seed):
    quick = tier == "quick"
    corpus = common.corpus_programs()
    small = [c for c in corpus if "TheIntercept" not in c["id"]]
    big = [c for c in corpus if "TheIntercept" in c["id"]]
    nviol = runner.run_relational(
        "C05", small, Build(tier, seed), tier, seed, "translation_validation",
        rule="every corpus pair except The Intercept x every choice path (breadth-first, depth <= %d, <= %d paths) of the "
             "reference-compiled story replayed on this compiler's output; non-trivial: at least one line was produced" % (
                 (6, 60) if quick else (12, 3000)),
        ex_kw=dict(depth=6 if quick else 12, max_paths=60 if quick else 3000, obs=dict(save=False, visits=False)),
        case_kw=dict(cmp=CMP, cmpall=CMP, cmpcb=False, cmpsave=False, cmpval=False, probed=True), chunk=10,
        extra_cov=dict(programs=len(small) + len(big)),
        assumptions=["both stories run on the same runtime build with the same seed",
                     "unbound externals use their Ink fallbacks in both"])
    nviol += runner.run_relational(
        "C05", big, Build(tier, seed), tier, seed, "translation_validation",
        rule="The Intercept: breadth-first bounded (%s)" % ("120 paths x depth 10" if quick else "5000 paths x depth 30"),
        ex_kw=dict(depth=10 if quick else 30, max_paths=120 if quick else 5000, obs=dict(save=False, visits=False), fuel=2000000),
        case_kw=dict(cmp=CMP, cmpall=CMP, cmpcb=False, cmpsave=False, cmpval=False, probed=True),
        extra_cov=dict(programs=len(small) + len(big)))
    return nviol
