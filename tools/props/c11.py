"""C11 — variable observers see each committed change once, with the final value.

Observers (three objects, shared and distinct variables) are added and removed at arbitrary points
of explored histories; the harness polls every global after every call.  TLC evaluates the rule
ContNotifyRule / SetVarNotifyRule of InkHostRules on every recorded call (registered pairs are
tracked by InkHostAbs.Track; they survive reset and load)."""
import random

import common
import lib
import runner

HOSTVAR = "hostvar"


def mask(comp, v):
    if comp == "vars" and isinstance(v, dict):
        return {k: x for k, x in v.items() if k != HOSTVAR}
    if comp == "save" and isinstance(v, dict) and isinstance(v.get("variablesState"), dict):
        v = dict(v)
        v["variablesState"] = {k: x for k, x in v["variablesState"].items() if k != HOSTVAR}
    return v


class Build:
    def __init__(self, tier, seed):
        self.tier = tier
        self.rnd = random.Random(seed)

    def cfg(self):
        return dict(mask=mask)

    def cases(self, ex, trails, batch):
        out = []
        paths = sorted(ex.paths, key=lambda t: (-len(ex.paths[t]["ops"]), t))
        gl = [g for g in ex.header["globals"] if g != HOSTVAR]
        if not paths or not gl:
            return out
        root = trails[()][0]
        r = self.rnd
        n = 6 if self.tier == "quick" else 30
        for ci in range(n):
            p = paths[ci % min(len(paths), 6)]
            ops = ex.paths[p]["ops"]
            watch = set()
            script = []
            for op in ops:
                script.append(op)
                if op["op"] == "new":
                    # initial registrations
                    for o in (1, 2, 3):
                        for v in r.sample(gl, min(len(gl), r.randint(0, 3))):
                            script.append({"op": "observe", "obs": o, "var": v, "cls": "regfree"})
                            watch.add((o, v))
                    if r.random() < 0.5:
                        script.append({"op": "observe", "obs": 1, "var": HOSTVAR, "cls": "regfree"})
                        watch.add((1, HOSTVAR))
                    continue
                c = r.random()
                if c < 0.15 and watch:
                    o, v = r.choice(sorted(watch))
                    script.append({"op": "remove_observer", "obs": o, "var": v, "cls": "regfree"})
                    watch.discard((o, v))
                elif c < 0.2 and watch:
                    o = r.choice(sorted(watch))[0]
                    script.append({"op": "remove_observer", "obs": o, "cls": "regfree"})
                    watch = set(w for w in watch if w[0] != o)
                elif c < 0.35:
                    o, v = r.randint(1, 3), r.choice(gl + [HOSTVAR])
                    if (o, v) not in watch:
                        script.append({"op": "observe", "obs": o, "var": v, "cls": "regfree"})
                        watch.add((o, v))
                elif c < 0.5:
                    script.append({"op": "set_var", "name": HOSTVAR, "value": r.randint(1, 9), "cls": "regfree"})
            # registrations survive reset / load: replay another path afterwards
            if r.random() < 0.5:
                q = r.choice(paths)
                script.append({"op": "reset"})
                script += [o for o in ex.paths[q]["ops"] if o["op"] != "new"]
            out.append(runner.CaseSpec(
                key="%s|%s|%d" % (ex.prog["id"], list(p), ci),
                scenario=common.scenario(0, ex.prog, script), root=root, info=dict(path=list(p)),
                nontrivial=lambda rs: any(c.get("k") == "obs" for x in rs for c in (x.get("cb") or []))))
        return out


def run(tier, seed):
    n = 36 if tier == "quick" else 500
    progs = common.gen_programs(n, seed, vars=4, impure_functions=1.5, assign_after_newline=2.0, hostvar=1)
    nviol = runner.run_relational(
        "C11", progs, Build(tier, seed), tier, seed, "model_checking",
        rule="generated programs with assignments before/between/after line ends, in impure functions, tunnels and "
             "choice bodies x explored path x 1-3 observer objects registered, removed (one variable / all) and "
             "re-registered at random positions, host assignments to an otherwise unused variable, optional reset "
             "and second path; every call polled; non-trivial: at least one notification was delivered",
        ex_kw=dict(depth=3 if tier == "quick" else 5, max_paths=8 if tier == "quick" else 40),
        case_kw=dict(cmpcb=False, chk11=True),
        assumptions=["a continue that returns Err is not required to notify (the statement speaks of completed continues)"])
    # the same property against the executable model of the host interface (absolute oracle, Tier-S programs)
    import hostmodel
    nviol += hostmodel.check("C11", "observe", tier, seed)
    return nviol
