"""C13 — every runtime error and warning is delivered exactly once.

Generated programs raise warnings (a temporary read before its declaration ran) and errors (a divert
through a variable holding 0, a stray tunnel return, exhausted content) at chosen points; compiled
documents with an older inkVersion raise the constructor's warning.  Base runs have no handler.
TLC validates (InkHostRules): with a handler, what the handler receives during each call equals the
messages the base run raised in that call (MsgRule: once each, never again later) and the story shows
the same lines; without a handler, NoHandlerRule: an error makes that continue return Err, stays
readable, stops the story; a warning never causes Err and stays readable."""
import json
import random

import common
import lib
import runner

CMP = ["can", "text", "tags", "choices", "vars", "visits"]


class Build:
    def __init__(self, tier, seed, mode):
        self.tier = tier
        self.rnd = random.Random(seed)
        self.mode = mode

    def cases(self, ex, trails, batch):
        out = []
        root = trails[()][0]
        for p in sorted(ex.paths)[: (8 if self.tier == "quick" else 60)]:
            ops = ex.paths[p]["ops"]
            script = list(ops)
            if self.mode == "handler":
                script = [ops[0], {"op": "set_handler", "cls": "skip"}] + ops[1:]
            # afterwards: more continues (nothing may be re-delivered), then a reset and the same path again
            script += [{"op": "cont"}, {"op": "cont"}]
            out.append(runner.CaseSpec(
                key="%s|%s|%s" % (ex.prog["id"], self.mode, list(p)),
                scenario=common.scenario(0, ex.prog, script), root=root, info=dict(mode=self.mode, path=list(p)),
                nontrivial=lambda rs: any((x.get("obs") or {}).get("warnings") or (x.get("obs") or {}).get("errors") or
                                          any(c.get("k") == "msg" for c in (x.get("cb") or [])) for x in rs)))
        return out


def old_version(progs, wd):
    """the same programs compiled, with inkVersion set one below current: the constructor's warning"""
    scs = [{"case": i, "programs": [common.prog_spec(p)], "echo_json": True, "script": []} for i, p in enumerate(progs)]
    out = []
    for r in lib.run_inkdrive(scs, wd, name="compile"):
        if r.get("op") == "programs" and r["programs"][0].get("json"):
            doc = json.loads(r["programs"][0]["json"])
            doc["inkVersion"] = 20
            p = dict(progs[r["case"]])
            p["id"] += "-v20"
            p["file"] = None
            p.pop("file")
            p["src_json"] = json.dumps(doc)
            out.append(p)
    return out


def run(tier, seed):
    n = 30 if tier == "quick" else 400
    wd = lib.workdir("C13")
    progs = common.gen_programs(n, seed, vars=3, msgs=2.0)
    old = old_version(progs[: max(4, n // 5)], wd)
    nviol = 0
    for mode in ("handler", "nohandler"):
        nviol += runner.run_relational(
            "C13", progs + old, Build(tier, seed, mode), tier, seed, "model_checking",
            rule="generated programs raising warnings and errors at chosen sites, and old-version documents x explored "
                 "paths followed by two more continues x mode %s; non-trivial: at least one message occurred" % mode,
            ex_kw=dict(depth=3 if tier == "quick" else 5, max_paths=10 if tier == "quick" else 60),
            case_kw=dict(cmp=CMP, cmpall=CMP, cmpcb=False, cmpsave=False, cmpres=(mode == "nohandler"), cmpval=False,
                         chk13=mode),
            assumptions=["message texts are compared between runs of the same build, never with constants"])
    # the same property against the executable model of the host interface (absolute oracle, Tier-S programs with a
    # zero divisor, a loose end or an undeclared temporary at chosen points; with, without and with a late handler)
    import hostmodel
    nviol += hostmodel.check("C13", "errors", tier, seed)
    return nviol
