"""C02 — saving and loading a game preserves all future behaviour.

For every explored path and save point: save, load into a FRESH story of the same program (and also
into the same story later), then every explored continuation on both stories; TLC validates against
InkHostAbs (SaveA/LoadA: load jumps to the saved position; the observation after a load includes a new
save_state() document, which must equal the saved one)."""
import random

import common
import lib
import runner

REG = ("new", "observe", "bind", "set_handler", "set_fallbacks")


class Build:
    def __init__(self, tier, seed):
        self.tier = tier
        self.rnd = random.Random(seed)

    def prelude(self, p):
        return [{"op": "bind", "name": e["name"], "safe": True, "spec": e["spec"]} for e in p.get("externals", [])]

    def cases(self, ex, trails, batch):
        out = []
        paths = sorted(ex.paths)
        if not paths:
            return out
        root = trails[()][0]
        r = self.rnd
        n = 10 if self.tier == "quick" else 60
        pre = [o for o in ex.paths[()]["ops"] if o["op"] in REG]
        twin_pre = [dict(o, on=1) for o in pre]
        for ci in range(n):
            q = r.choice(paths)
            ops = ex.paths[q]["ops"]
            j = r.randint(len(pre), len(ops))          # save after ops[:j]
            deep = common.deep_positions(ex.paths[q]["recs"], len(pre))
            if deep and r.random() < 0.6:
                j = r.choice(deep) + 1                   # inside a thread / tunnel / function, choices pending mid-turn
            if (ex.paths[q]["recs"][j - 1].get("obs") or {}).get("errors"):
                continue                                 # a halted story is not a save point of the statement
            before, rest = ops[:j], ops[j:]
            # a different continuation with the same prefix, if one was explored
            alts = [a for a in paths if ex.paths[a]["ops"][:j] == before and a != q]
            alt = ex.paths[r.choice(alts)]["ops"][j:] if alts else rest
            mode = "fresh"   # the statement is about a freshly constructed story
            script = list(before) + [{"op": "save", "slot": "s"}]
            if mode in ("fresh", "both"):
                script += twin_pre + [{"op": "load", "slot": "s", "on": 1}]
                script += [dict(o, on=1) for o in alt]
                script += list(rest)                     # the original goes on undisturbed
            if mode in ("same", "both"):
                k = r.randint(0, len(rest))
                if mode == "same":
                    script += list(rest[:k])
                script += [{"op": "load", "slot": "s"}] + list(alt)
            out.append(runner.CaseSpec(
                key="%s|%s|%s|%d" % (ex.prog["id"], mode, list(q), j),
                scenario=common.scenario(0, ex.prog, script), root=root,
                info=dict(mode=mode, path=list(q), save_after=j),
                nontrivial=lambda rs, j=j, pre=len(pre): j > pre + 1 and any(x["op"] == "load" and x.get("res") == "ok" for x in rs)))
        return out


def run(tier, seed):
    n = 40 if tier == "quick" else 500
    progs = (common.gen_programs(n // 2, seed, vars=3) +
             common.gen_programs(n // 4, seed + 3, vars=3, lists=1.0, random=1.0, shuffles=1.0) +
             common.gen_programs(n // 4, seed + 4, vars=3, externals=1.0, threads=1.5, tunnels=1.5, fallback=1.5) +
             # choices left pending by a conditional block while threads and tunnels print further lines: a save in between
             # has several live threads and an older thread's choice
             common.gen_programs(n // 3, seed + 6, vars=2, threads=2.5, tunnels=1.5, choices=2.5))
    corpus = common.corpus_programs()
    if tier == "quick":
        random.Random(seed).shuffle(corpus)
        corpus = corpus[:24]
    progs += [c for c in corpus if "TheIntercept" not in c["id"]]
    nviol = runner.run_relational(
        "C02", progs, Build(tier, seed), tier, seed, "model_checking",
        rule="generated programs (lists, RANDOM, shuffles, externals, threads, tunnels, fallback choices) and corpus "
             "stories x explored path x save point at every boundary x load into a fresh twin and/or the same story x "
             "an explored alternative continuation; non-trivial: the save point is past the first line and the load succeeded",
        ex_kw=dict(depth=3 if tier == "quick" else 5, max_paths=10 if tier == "quick" else 60),
        case_kw=dict(cmp=["can", "text", "tags", "choices", "vars", "visits", "save"]),
        assumptions=["compared after a load: can_continue, text, tags, choices, globals, visit counts and the save document "
                     "(error and warning lists are not part of a save)", "a twin is constructed from the same compiled document and given the same registrations"])
    # the same property against the executable model of the host interface (absolute oracle, Tier-S programs)
    import hostmodel
    nviol += hostmodel.check("C02", "save", tier, seed)
    # ... and with several flows: saves taken while flows wait in the background, which are looked at after the load
    nviol += hostmodel.check("C02", "saveflows", tier, seed)
    return nviol
