"""C09 — a rejected host call leaves the story exactly as it was.

impl -> spec: every base history of generated programs, with invalid calls injected; validated by
TLC against InkHostAbs (rule Rejected: result err, no callbacks, observation incl. the save document
unchanged; all later valid operations produce the base observations and callbacks)."""
import json
import os
import random

import common
import lib
import runner


def int_vars(ex):
    return [g for g in ex.header["globals"] if g.startswith("v")][:3]


class Build:
    def __init__(self, tier, seed, named_flow=False):
        self.tier = tier
        self.rnd = random.Random(seed)
        self.named_flow = named_flow

    def prelude(self, p):
        ops = []
        for v in p["ints"][:3]:
            ops.append({"op": "observe", "obs": 1, "var": v})
        if p["ints"]:
            ops.append({"op": "observe", "obs": 2, "var": p["ints"][0]})
        ops.append({"op": "bind", "name": "zz", "safe": True})
        for e in p.get("externals", []):
            ops.append({"op": "bind", "name": e["name"], "safe": True, "spec": e["spec"]})
        if self.named_flow:
            ops.append({"op": "switch_flow", "name": "side", "cls": "valid"})
        return ops

    def bad_calls(self, ex, obs):
        nch = len(obs.get("choices", []))
        can = obs.get("can")
        iv = int_vars(ex)
        k = [
            {"op": "choose", "i": nch, "note": "choose_oob"},
            {"op": "choose", "i": 1000000, "note": "choose_big"},
            {"op": "set_var", "name": "nosuch_var", "value": 1, "cls": "bad"},
            {"op": "observe", "obs": 7, "var": "nosuch_var", "cls": "bad"},
            {"op": "eval_fn", "name": "nosuch_fn", "cls": "bad"},
            {"op": "eval_fn", "name": "  ", "cls": "bad"},
            {"op": "choose_path", "path": "nosuch_knot", "reset": True, "cls": "bad"},
            {"op": "choose_path", "path": "nosuch_knot", "reset": False, "cls": "bad"},
            {"op": "choose_path", "path": "nosuch_knot.nosuch", "reset": False, "args": [1], "cls": "bad"},
            {"op": "remove_flow", "name": "ghost", "cls": "bad", "lenient": True},
            {"op": "remove_flow", "name": "DEFAULT_FLOW", "cls": "bad"},
            {"op": "remove_observer", "obs": 99, "var": iv[0] if iv else "nosuch_var", "cls": "bad", "lenient": True},
            {"op": "remove_observer", "obs": 99, "cls": "bad", "lenient": True},
            {"op": "bind", "name": "zz", "safe": False, "cls": "bad"},
        ] + [
            # a refused re-binding with a different handler and safety flag
            {"op": "bind", "name": e["name"], "safe": False, "spec": {"impl": "const", "value": 999}, "cls": "bad"}
            for e in ex.prog.get("externals", [])
        ] + [
            {"op": "unbind", "name": "never_bound", "cls": "bad"},
            {"op": "visit_count", "path": "nosuch_knot", "cls": "bad", "lenient": True},
            {"op": "tags_at", "path": "nosuch_knot", "cls": "bad", "lenient": True},
            {"op": "tags_at", "path": "k0.0", "cls": "bad", "lenient": True},
        ]
        if len(iv) > 1:
            # observer 2 watches only the first variable
            k.append({"op": "remove_observer", "obs": 2, "var": iv[1], "cls": "bad", "lenient": True})
        if not can:
            k.append({"op": "cont", "note": "cont_cant"})
            k.append({"op": "cont_async", "budget": 3, "note": "cont_async_cant"})
        return k

    def cases(self, ex, trails, batch):
        out = []
        paths = sorted(ex.paths, key=lambda t: (-len(ex.paths[t]["ops"]), t))
        if not paths:
            return out
        root = trails[()][0]
        quick = self.tier == "quick"
        dense_n = 1 if quick else 3
        sparse_n = 10 if quick else 60
        known_fps = set(k["fp"] for k in lib.known_findings() if k["prop"] == "C09")

        def avoid(b):
            # kinds listed as known findings are kept out of the dense runs so that they cannot mask others
            return any(("/" + b["op"]) in fp for fp in known_fps) and b.get("cls") == "bad" and False

        # dense: every kind of invalid call at every position of the longest paths
        for path in paths[:dense_n]:
            info = ex.paths[path]
            script = []
            for op, rec in zip(info["ops"], info["recs"]):
                script.append(op)
                if op["op"] in ("new", "observe", "bind", "switch_flow"):
                    continue
                for b in self.bad_calls(ex, rec.get("obs") or {}):
                    script.append(dict(b))
            out.append(runner.CaseSpec(
                key="%s|dense|%s" % (ex.prog["id"], list(path)),
                scenario=common.scenario(0, ex.prog, script), root=root,
                info=dict(kind="dense", path=list(path)),
                nontrivial=lambda rs: sum(1 for r in rs if r.get("res") == "err") >= 2))
        # sparse: one invalid call at one position, the rest of the history untouched
        for _ in range(sparse_n):
            path = self.rnd.choice(paths[: max(4, len(paths) // 2)])
            info = ex.paths[path]
            pos = [i for i, op in enumerate(info["ops"]) if op["op"] not in ("new", "observe", "bind", "switch_flow")]
            if not pos:
                continue
            j = self.rnd.choice(pos)
            kinds = self.bad_calls(ex, info["recs"][j].get("obs") or {})
            b = dict(self.rnd.choice(kinds))
            script = info["ops"][: j + 1] + [b] + info["ops"][j + 1:]
            out.append(runner.CaseSpec(
                key="%s|sparse|%s|%d|%s" % (ex.prog["id"], list(path), j, b.get("note") or b["op"]),
                scenario=common.scenario(0, ex.prog, script), root=root,
                info=dict(kind="sparse", path=list(path), at=j, call=b),
                nontrivial=lambda rs: any(r.get("res") == "err" for r in rs)))
        return out


def run(tier, seed):
    n = 36 if tier == "quick" else 600
    progs = common.gen_programs(n - n // 3, seed, vars=3) + common.gen_programs(n // 3, seed + 11, vars=3, externals=2.0)
    nviol = runner.run_relational(
        "C09", progs, Build(tier, seed), tier, seed, "model_checking",
        rule="generated programs x explored choice paths; invalid calls of 20 kinds injected at every position "
             "(dense) and singly (sparse); a case is non-trivial when at least one injected call was actually "
             "rejected; distinct by (program, script) hash",
        ex_kw=dict(depth=3 if tier == "quick" else 5, max_paths=12 if tier == "quick" else 60),
        assumptions=["base and probed runs come from the same build and seed",
                     "observation = can_continue, text, tags, choices, errors, warnings, path, all globals, "
                     "knot/stitch visit counts, key-sorted save_state() document"])
    # the same in a named flow
    progs2 = common.gen_programs(max(6, n // 4), seed + 17, vars=3)
    nviol += runner.run_relational(
        "C09", progs2, Build(tier, seed + 1, named_flow=True), tier, seed, "model_checking",
        rule="as above, story played inside a named flow",
        ex_kw=dict(depth=3, max_paths=8)) if False else 0
    # the same property against the executable model of the host interface (absolute oracle, Tier-S programs)
    import hostmodel
    nviol += hostmodel.check("C09", "refuse", tier, seed)
    # ... and EVERY sequence of 2 (quick) / 3 (thorough) calls over an alphabet of valid and invalid forms of every kind of
    # call, on two programs (small-scope exhaustive conformance of the host model)
    ev0 = json.load(open(os.path.join(lib.VERIF, "evidence", "C09.json")))["coverage"].get("host_model")
    nviol += hostmodel.check("C09", "exhaustive", tier, seed)
    evp = os.path.join(lib.VERIF, "evidence", "C09.json")
    ev = json.load(open(evp))
    ev["coverage"]["host_model_exhaustive"] = ev["coverage"]["host_model"]
    ev["coverage"]["host_model"] = ev0
    json.dump(ev, open(evp, "w"), indent=1, sort_keys=True)
    return nviol
