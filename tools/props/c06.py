"""C06 — the compiler is total and deterministic, and its output is well formed.

A seeded mutation driver produces inputs: byte / character / line / token mutations and splices of
corpus sources and of generated programs, and token soup over Ink's punctuation and keywords.  Every
input is compiled by the harness (under catch_unwind; a process abort or a hang is an outcome too).
TLC validates (spec/InkPathAudit.tla, rows of kind "compile" and "ref"): the outcome is a story that
Story::new loads, or an error whose line — if it names one — lies inside the input; in every returned
story every divert, tunnel, function call, thread start, choice target, read-count reference and
divert-target literal resolves exactly (InkPath!ResolveFrom over a tree built from the JSON text by
an independent parser) to existing content of the expected kind.  Determinism: every input is
compiled in a second process and the outputs are compared byte for byte."""
import hashlib
import json
import os
import random
import re
import time

import common
import lib
from props import c19

TOKENS = ["->", "<-", "->->", "==", "===", "=", "*", "+", "-", "~", "{", "}", "|", "#", "<>", "[", "]", "(", ")", ",", ":", "!", "&",
          "VAR", "CONST", "LIST", "EXTERNAL", "INCLUDE", "temp", "return", "function", "else", "not", "and", "or", "true", "false",
          "DONE", "END", "TURNS_SINCE", "CHOICE_COUNT", "RANDOM", "LIST_ALL", "\"", "\\", "//", "/*", "*/", "TODO:", "x", "k0", "v0",
          "1", "0", "2147483648", "1.5", "é", "日", "𝄞", "\t", "  ", "\n", "\n\n", "\r\n", "stopping", "cycle", "shuffle", "once", "ref"]


# sources whose references carry arguments (tunnels, threads, functions with parameters, divert targets as values):
# the mutations "rename" / "misname" turn them into references to names that exist nowhere
EXTRA_POOL = [
    # non-ASCII text inside expressions (string literals in front of further tokens), on several kinds of line
    """VAR s = "a\u00f1"
VAR t = "\u65e5\u672c"
-> k
== k ==
{"\u65e5\u672c\u8a9e" + 1} {s == "\u00e9"} {"\u00fc" + s + "\U0001d11e" + 2}
~ s = "\u00df" + s + t
* {s != "\u00e9\u00e8"} [choose "\u00e9" {t + "\u00fc" + 1}]
    ~ temp u = "\u00e5" + s + 3.5
    {u} {t ? "\u672c"} {MAX(1, 2)} -> k2(s + "\u00e9", 2)
- {s}
-> END
== k2(p, q) ==
{p + "\u00e9" + q}
-> END
""",
    # numeric literals at and beyond the limits
    """VAR f = 3.5
-> k
== k ==
{f + 340282350000000000000000000000000000000.0}
{f * 99999999999999999999999999999999999999999999999.0}
{2147483647 + 1} {1.0e5}
-> END
""",
    """VAR x = 2
-> start
== start ==
Before.
-> greet(3) ->
<- side(x, 1)
~ x = twice(x)
{twice(x)} and {start}
-> pass(-> start) ->
* [go] -> greet(x) -> start
* {TURNS_SINCE(-> start) > 0} other -> DONE
- -> END
== greet(n) ==
Hello {n}.
->->
== pass(-> target) ==
passing
->->
== side(a, b) ==
side {a + b}
-> DONE
== function twice(v) ==
~ return v * 2
""",
    """LIST mood = calm, (angry)
VAR where = -> hall
-> hall
== hall ==
= entry
In the hall. {hall.entry}
-> where
= again
* (pick) [look] -> show(mood) -> again
* {pick} [leave] -> cellar.stairs
== cellar ==
= stairs
Down. {READ_COUNT(-> hall.entry)}
-> tunnel2(1, 2) -> -> END
== tunnel2(p, q) ==
{p}{q}
->->
== show(m) ==
{m}
->->
""",
]


def misname(src, rnd):
    """one reference (divert, tunnel, thread, call) gets a name that is defined nowhere"""
    pats = [r"->\s*([a-z][\w.]*)\s*\(", r"->\s*([a-z][\w.]*)\s*->", r"<-\s*([a-z][\w.]*)", r"->\s*([a-z][\w.]*)", r"\b([a-z]\w*)\s*\("]
    hits = []
    for p in pats:
        hits += [(m.start(1), m.end(1)) for m in re.finditer(p, src)]
    if not hits:
        return None
    a, b = rnd.choice(hits)
    return src[:a] + rnd.choice(["nosuch", "great", src[a:b] + "x", "no.such"]) + src[b:]


def mutate_source(src, rnd, pool):
    kind = rnd.choice(["delline", "dupline", "swapline", "insert", "delchar", "splice", "soup", "truncate", "indent", "unicode",
                       "rename", "nest", "bytes", "misname", "misname"])
    if kind == "misname":
        out = misname(src, rnd)
        if out is not None:
            return kind, out
    lines = src.split("\n")
    if kind == "delline" and lines:
        del lines[rnd.randrange(len(lines))]
        return kind, "\n".join(lines)
    if kind == "dupline" and lines:
        i = rnd.randrange(len(lines))
        lines.insert(i, lines[i])
        return kind, "\n".join(lines)
    if kind == "swapline" and len(lines) > 1:
        i, j = rnd.randrange(len(lines)), rnd.randrange(len(lines))
        lines[i], lines[j] = lines[j], lines[i]
        return kind, "\n".join(lines)
    if kind == "insert":
        for _ in range(rnd.randint(1, 4)):
            i = rnd.randrange(len(src) + 1)
            src = src[:i] + rnd.choice(TOKENS) + src[i:]
        return kind, src
    if kind == "delchar" and src:
        for _ in range(rnd.randint(1, 5)):
            if src:
                i = rnd.randrange(len(src))
                src = src[:i] + src[i + 1:]
        return kind, src
    if kind == "splice":
        other = rnd.choice(pool)
        a, b = rnd.randrange(len(src) + 1), rnd.randrange(len(other) + 1)
        return kind, src[:a] + other[b:]
    if kind == "soup":
        return kind, " ".join(rnd.choice(TOKENS) for _ in range(rnd.randint(1, 60)))
    if kind == "truncate":
        return kind, src[: rnd.randrange(len(src) + 1)]
    if kind == "indent" and lines:
        i = rnd.randrange(len(lines))
        lines[i] = rnd.choice(["  ", "\t", "    ", "* ", "- ", "+ + ", "* * * "]) + lines[i]
        return kind, "\n".join(lines)
    if kind == "unicode" and lines:
        # non-ASCII text in front of expression tokens on the same line
        i = rnd.randrange(len(lines))
        lines[i] = rnd.choice(["é", "日本語 ", "𝄞𝄞 ", "ß{"]) + lines[i] + rnd.choice(["", " {1 + 2}", " {x > 1: a|b}", " -> END"])
        return kind, "\n".join(lines)
    if kind == "rename":
        names = re.findall(r"\b[a-z][a-z0-9_]{1,8}\b", src)
        if names:
            n = rnd.choice(names)
            return kind, re.sub(r"\b%s\b" % re.escape(n), rnd.choice(["nosuch", "END", "x", n + "2", "function"]), src, count=rnd.choice([1, 99]))
    if kind == "nest":
        # every depth, not a few: limits of the compiler and of the runtime's reader lie somewhere in between
        n = rnd.choice([rnd.randint(2, 24), rnd.randint(24, 70), rnd.randint(24, 70), rnd.randint(70, 140), 200, 3000])
        form = rnd.randrange(8)
        if form == 0:
            # ever deeper weave levels
            return kind, src + "\n== nestk ==\n" + "\n".join("%sc%d" % ("* " * k, k) for k in range(1, min(n, 150) + 1)) + "\n-> END\n"
        if form == 1:
            return kind, src + "\n{" + "(" * n + "1" + ")" * n + "}\n"
        op, cl = [("{", "}"), ("(", ")"), ("[", "]"), ("{a:", "}"), ("{true:", "}"), ("{a|", "}")][form - 2]
        return kind, src + "\n" + op * n + "x" + (cl * n if rnd.random() < 0.7 else "")
    if kind == "bytes" and src:
        b = bytearray(src.encode("utf-8"))
        for _ in range(rnd.randint(1, 4)):
            b[rnd.randrange(len(b))] = rnd.randrange(1, 256)
        return kind, b.decode("utf-8", errors="replace")
    return "same", src


def parse_doc(text):
    """independent parse of a compiled story: node table and references.  Returns (rows, nrefs)"""
    doc = json.loads(text)
    nodes = []
    refs = []

    def leaf(v, parent, index):
        nid = len(nodes) + 1
        nodes.append(dict(kind="node", id=nid, p=parent, x=index, n="", isC=False, cx=[], cn={}, path="", self=True, approx=False,
                          re="", rerel=False, reeq=True, heq=True, unchecked=True))
        if isinstance(v, dict):
            if v.get("var") is True:
                pass                     # variable divert: the target is a variable name
            else:
                for key, want in (("->", "any"), ("f()", "any"), ("->t->", "any"), ("*", "any"), ("CNT?", "container"), ("^->", "any")):
                    if isinstance(v.get(key), str):
                        rel, cs = c19.comps(v[key])
                        refs.append(dict(kind="ref", **{"from": nid}, rel=rel, path=cs, want=want, text=v[key], via=key))
        return nid

    def container(arr, parent, index, name):
        nid = len(nodes) + 1
        node = dict(kind="node", id=nid, p=parent, x=index, n=name or "", isC=True, cx=[], cn={}, path="", self=True, approx=False,
                    re="", rerel=False, reeq=True, heq=True, unchecked=True)
        nodes.append(node)
        last = arr[-1] if arr else None
        items = arr[:-1] if arr else []
        if isinstance(last, dict) and isinstance(last.get("#n"), str):
            node["n"] = last["#n"]
        for i, it in enumerate(items):
            if isinstance(it, list):
                cid = container(it, nid, i, None)
                if nodes[cid - 1]["n"]:
                    node["cn"][nodes[cid - 1]["n"]] = cid
            else:
                cid = leaf(it, nid, i)
            node["cx"].append(cid)
        if isinstance(last, dict):
            for k, v in last.items():
                if not k.startswith("#") and isinstance(v, list):
                    cid = container(v, nid, -1, k)
                    nodes[cid - 1]["n"] = nodes[cid - 1]["n"] or k
                    node["cn"][k] = cid
        return nid

    container(doc["root"], 0, -1, None)
    return nodes, refs


def run(tier, seed):
    t0 = time.time()
    quick = tier == "quick"
    wd = lib.workdir("C06")
    lib.build("debug")
    rnd = random.Random(seed)
    pool = []
    for c in common.corpus_programs():
        if "TheIntercept" in c["id"]:
            continue
        pool.append(open(c["inkfile"], encoding="utf-8-sig").read())
    for g in common.gen_programs(30 if quick else 300, seed, vars=3, lists=0.5, externals=0.5, seq_inline=1):
        pool.append(g["src"])
    pool += EXTRA_POOL * 3
    n = 1500 if quick else 60000
    inputs = []
    for i in range(n):
        src = rnd.choice(pool)
        kinds = []
        for _ in range(rnd.choice([1, 1, 2, 3])):
            k, src = mutate_source(src, rnd, pool)
            kinds.append(k)
        inputs.append(("+".join(kinds), src))
    # also the unmutated sources (well-formedness of what the compiler normally emits)
    inputs += [("plain", s) for s in pool]

    def compile_all(tag):
        out = {}
        for start in range(0, len(inputs), 400):
            chunk = inputs[start:start + 400]
            scs = [{"case": start + j, "programs": [{"ink": src}], "echo_json": True, "allow_compile_error": True, "fuel": 2000,
                    "obs": {"save": False, "vars": False, "visits": False}, "script": [{"op": "new"}, {"op": "cont"}]}
                   for j, (_k, src) in enumerate(chunk)]
            recs = lib.run_inkdrive(scs, wd, name="%s-%d" % (tag, start), timeout=240, env_extra={"INKDRIVE_STACK_MB": "16"})
            for r in recs:
                c = r.get("case")
                if r.get("op") == "programs":
                    p = r["programs"][0]
                    out.setdefault(c, {})["detail"] = p.get("compile_detail")
                    out[c]["json"] = p.get("json")
                elif r.get("op") == "new":
                    out.setdefault(c, {})["loads"] = r.get("res") == "ok"
                    out[c]["newres"] = r.get("res")
                elif r.get("op") == "abort":
                    out.setdefault(c, {})["abort"] = (r.get("rc"), (r.get("stderr") or "")[-200:])
        return out

    first = compile_all("a")
    second = compile_all("b")
    rows, meta = [], []
    ndocs = nrefs = 0
    nondet = []
    outcomes = {}
    for i, (kind, src) in enumerate(inputs):
        o = first.get(i, {})
        # the lines of the input: what follows a final line end is not a line
        nlines = max(1, src.count("\n") + (0 if src.endswith("\n") else 1))
        if "abort" in o or "detail" not in o and "json" not in o:
            res, line = ("timeout" if o.get("abort", (0,))[0] == -999 else "abort"), 0
        elif o.get("json"):
            res, line = "ok", 0
        elif (o.get("detail") or {}).get("kind") == "panic":
            res, line = "panic", 0
        else:
            res, line = "err", (o.get("detail") or {}).get("line") or 0
        outcomes[res] = outcomes.get(res, 0) + 1
        rows.append(dict(kind="compile", res=res, line=line, nlines=nlines, loads=bool(o.get("loads"))))
        meta.append((i, None))
        if res == "ok":
            # determinism
            o2 = second.get(i, {})
            if o2.get("json") != o["json"]:
                nondet.append(i)
            if o.get("loads") and (ndocs < (150 if quick else 4000)):
                try:
                    nodes, refs = parse_doc(o["json"])
                except (ValueError, KeyError, TypeError, IndexError):
                    continue
                ndocs += 1
                nrefs += len(refs)
                rows.append(dict(kind="doc", n=len(nodes)))
                meta.append((i, None))
                for nd in nodes:
                    rows.append(nd)
                    meta.append((i, None))
                for rf in refs:
                    rows.append(rf)
                    meta.append((i, rf))
        elif res == "err":
            o2 = second.get(i, {})
            if (o2.get("detail") or {}).get("message") != (o.get("detail") or {}).get("message"):
                nondet.append(i)
    # node rows of parsed documents carry no implementation claims: mark them so that the node rule is skipped
    for r in rows:
        if r.get("kind") == "node" and r.get("unchecked"):
            r["kind"] = "tree"
    path = os.path.join(wd, "c06.ndjson")
    with open(path, "w") as f:
        for r in rows:
            f.write(json.dumps(r) + "\n")
    res = lib.run_tlc("InkPathAudit", "InkPathAudit.cfg", wd, env_extra=dict(AUDIT=path), workers=1, timeout=3000, xmx="8g")
    m = re.search(r'<<"CONSUMED", (\d+), (\d+)>>', res["out"])
    if not m or m.group(1) != m.group(2):
        raise lib.ToolError("InkPathAudit did not consume the rows:\n" + "\n".join(res["out"].splitlines()[-30:]))
    known = {k["fp"]: k for k in lib.known_findings() if k["prop"] == "C06"}
    seen_known, nviol, per = set(), 0, {}

    def report(fp, payload):
        nonlocal nviol
        if fp in known:
            if fp not in seen_known:
                seen_known.add(fp)
                print("KNOWN-FINDING: property=C06 %s %s" % (fp, known[fp]["text"]))
            return
        per[fp] = per.get(fp, 0) + 1
        nviol += 1
        if per[fp] <= 2:
            payload["fingerprint"] = fp
            print("VIOLATION property=C06 replay=%s" % lib.write_replay("C06", payload))

    for line in lib.tlc_prints(res["out"], "MISMATCH"):
        mm = re.match(r'<<"MISMATCH", (\d+), "([^"]*)">>', line)
        l, rule = int(mm.group(1)), mm.group(2)
        i, rf = meta[l - 1]
        kind, src = inputs[i]
        o = first.get(i, {})
        fp = rule
        if rule == "Compile.panic":
            loc = ((o.get("detail") or {}).get("detail") or "").split("@")[-1].strip().replace("/repo/", "")
            fp = "Compile.panic@" + loc
        elif rule.startswith("Ref."):
            # the finding is identified by the kind of reference and by what is wrong with its target
            if rf["rel"]:
                cat = "relative-path"
            else:
                head = rf["text"].split(".")[0]
                defined = re.search(r"^\s*={2,}\s*(function\s+)?%s\b" % re.escape(head), src, re.M) is not None
                cat = "defined-name-bad-subpath" if defined else "undefined-name"
            fp = "%s/%s/%s" % (rule, rf["via"], cat)
        elif rule == "Compile.output_does_not_load":
            deep = max((len(m.group(0)) for m in re.finditer(r"(\{a:|\{|\(|\[){50,}", src)), default=0)
            fp = rule + ("/deep-nesting" if deep else "/other")
        report(fp, dict(rule=rule, mutation=kind, source=src[:6000], detail=o.get("detail"), reference=rf,
                        row={k: v for k, v in rows[l - 1].items() if k not in ("cx", "cn")}))
    for i in nondet[:50]:
        report("Compile.nondeterministic", dict(rule="two processes gave different output", mutation=inputs[i][0], source=inputs[i][1][:6000]))
    lib.log("[C06] inputs=%d outcomes=%s documents checked=%d references=%d nondeterministic=%d violations=%s wall=%.1fs" % (
        len(inputs), outcomes, ndocs, nrefs, len(nondet), json.dumps(per)[:1500], time.time() - t0))
    cov = dict(evaluations=len(inputs), distinct_nontrivial=len(set(hashlib.sha256(s.encode()).hexdigest() for _k, s in inputs)),
               rule="mutations (delete / duplicate / swap a line, insert tokens, delete characters, splice two sources, token soup, "
                    "truncation, indentation, non-ASCII before expression tokens, renamed identifiers, deep nesting, corrupted "
                    "bytes; 1-3 per input) of corpus sources and generated programs, plus the unmutated sources; distinct by "
                    "content hash; every input is non-trivial (it is handed to the compiler)",
               samples=[dict(mutation=inputs[0][0], source=inputs[0][1][:400], outcome=rows[0])],
               outcomes=outcomes, documents_checked_for_references=ndocs, references=nrefs, compiled_twice=len(inputs),
               states=max(1, res["distinct"]), transitions=max(1, res["states"]), known_findings_seen=sorted(seen_known), exhaustive=False)
    lib.write_evidence("C06", tier, seed, "fault_enumeration", cov, time.time() - t0, nviol,
                       ["the tree used to resolve references is built from the JSON text by an independent parser in the converter",
                        "a compile taking longer than the batch limit (240 s for 400 inputs) counts as a hang"])
    return nviol
