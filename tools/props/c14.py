"""C14 — both story loaders build the same story from the same JSON.

Base runs: every document is loaded by the default loader (debug build), audited (content audit hook:
kind, path, text of every object) and its choice tree explored.  Probed runs: the same document — and
re-serialisations of it (all non-ASCII as \\uXXXX escapes incl. surrogate pairs, pretty-printed, floats
in exponent form) — loaded by the streaming loader (second build, feature stream-json-parser) and by the
default loader.  TLC validates every probed run against the reference system of the base run
(InkHostAbs rule Valid): the audit listing returned by the `audit` call and every observation along
every explored path must be equal.  Documents: the corpus, this compiler's output for the corpus and for
generated programs; their text is salted with tabs, quotes, backslashes, control and non-BMP characters."""
import json
import random
import re

import common
import lib
import runner

SALT = ["\t", "\"", "\\", "\u0001", "\u001f", "é", "日本", "𝄞", "/", " ", "a\tb", "\\n", "{}", " ",
        "\U00020BB7", "\U000E0041", "\U0010FFFD", "\uFFFD", "\u2028"]


def salt(doc, rnd, rate=0.25):
    """append special characters to some text strings of a compiled story document"""
    def walk(x):
        if isinstance(x, list):
            return [walk(y) for y in x]
        if isinstance(x, dict):
            return {k: walk(v) for k, v in x.items()}
        if isinstance(x, str) and x.startswith("^") and len(x) > 1 and rnd.random() < rate:
            return x + rnd.choice(SALT)
        if isinstance(x, int) and not isinstance(x, bool) and rnd.random() < 0.15:
            return -abs(x) - rnd.randint(1, 3)      # negative integer literals
        if isinstance(x, float) and rnd.random() < 0.3:
            return -x
        return x
    d = dict(doc)
    d["root"] = walk(doc["root"])
    return d


def float_forms(text, rnd):
    """floats written in exponent form (the value and its float-ness are unchanged)"""
    def rep(m):
        if rnd.random() < 0.5:
            return m.group(0)
        return "%se0" % m.group(0)
    return re.sub(r"(?<![\w.\"])-?\d+\.\d+(?![\w.\"])", rep, text)


def variants(doc, rnd):
    out = [("plain", json.dumps(doc, ensure_ascii=False, separators=(",", ":")))]
    out.append(("ascii", json.dumps(doc, ensure_ascii=True, separators=(",", ":"))))
    out.append(("pretty", json.dumps(doc, ensure_ascii=rnd.random() < 0.5, indent=rnd.choice([1, 2, "\t"]))))
    out.append(("floats", float_forms(json.dumps(doc, ensure_ascii=False, separators=(", ", " : ")), rnd)))
    return out


class Build:
    def __init__(self, tier, seed, flavour, variant):
        self.tier = tier
        self.probe_flavour = flavour
        self.variant = variant

    def prelude(self, p):
        return [{"op": "audit", "span": 1, "random_pairs": 0, "max_from": 50}, {"op": "set_fallbacks", "v": True}]

    def cases(self, ex, trails, batch):
        out = []
        root = trails[()][0]
        subject = dict(src_json=ex.prog["variants"][self.variant], id=ex.prog["id"])
        for p in sorted(ex.paths):
            if any(q[:len(p)] == p and len(q) > len(p) for q in ex.paths):
                continue
            out.append(runner.CaseSpec(
                key="%s|%s|%s|%s" % (ex.prog["id"], self.probe_flavour, self.variant, list(p)),
                scenario=common.scenario(0, subject, ex.paths[p]["ops"]), root=root,
                info=dict(path=list(p), loader=self.probe_flavour, variant=self.variant),
                nontrivial=lambda rs: any(x.get("op") == "audit" and x.get("res") == "ok" for x in rs)))
        return out


def documents(tier, seed, wd):
    rnd = random.Random(seed)
    quick = tier == "quick"
    docs = []
    corpus = common.corpus_programs()
    if quick:
        rnd.shuffle(corpus)
        corpus = [c for c in corpus if "TheIntercept" not in c["id"]][:30]
    for c in corpus:
        if "TheIntercept" in c["id"] and quick:
            continue
        docs.append((c["id"] + "#ref", json.loads(open(c["file"], encoding="utf-8-sig").read())))
    # this compiler's output: corpus sources and generated programs
    srcs = [dict(id=c["id"] + "#rust", inkfile=c["inkfile"]) for c in corpus[: (10 if quick else 200)]]
    srcs += common.gen_programs(12 if quick else 200, seed, vars=3, unicode=1.0, lists=0.5, floats=1.0)
    scs = [{"case": i, "programs": [common.prog_spec(p)], "echo_json": True, "script": []} for i, p in enumerate(srcs)]
    for r in lib.run_inkdrive(scs, wd, name="compile"):
        if r.get("op") == "programs" and r["programs"][0].get("json"):
            docs.append((srcs[r["case"]]["id"], json.loads(r["programs"][0]["json"])))
    progs = []
    for (pid, doc) in docs:
        salted = salt(doc, rnd) if "TheIntercept" not in pid else doc
        vs = dict(variants(salted, rnd))
        progs.append(dict(id=pid, src_json=vs["plain"], variants=vs))
    return progs


def run(tier, seed):
    wd = lib.workdir("C14")
    lib.build("debug")
    lib.build("stream")
    progs = documents(tier, seed, wd)
    nviol = 0
    plan = [("stream", "plain"), ("stream", "ascii"), ("stream", "pretty"), ("stream", "floats"),
            ("debug", "ascii"), ("debug", "pretty"), ("debug", "floats")]
    for flavour, variant in plan:
        nviol += runner.run_relational(
            "C14", progs, Build(tier, seed, flavour, variant), tier, seed, "translation_validation",
            rule="documents (corpus reference stories, this compiler's output for corpus sources and generated programs, "
                 "texts salted with tab, quote, backslash, control, non-ASCII and non-BMP characters) loaded by the %s "
                 "loader from the '%s' serialisation: audit listing and every explored path compared with the default "
                 "loader on the plain serialisation; non-trivial: the audit was obtained" % (
                     "streaming" if flavour == "stream" else "default", variant),
            ex_kw=dict(depth=2 if tier == "quick" else 4, max_paths=6 if tier == "quick" else 40, obs=dict(save=False)),
            case_kw=dict(cmpsave=False, probed=True), chunk=10, jobs=4,
            extra_cov=dict(programs=len(progs)),
            assumptions=["the default loader on the compact UTF-8 serialisation is the reference; a defect common to both "
                         "loaders is out of reach of this comparison (C01/C19 look at the tree itself)"])
    return nviol
