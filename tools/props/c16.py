"""C16 — evaluating an Ink function from the host does not disturb the story.

Pure functions of generated programs are evaluated at every boundary of explored histories; TLC
validates against InkHostAbs (EvalA: the position does not move; the observation, with the visit
and turn entries of the functions masked, equals the previous one; a repeated evaluation returns the
same value and text; all later operations as in the base run)."""
import json
import random

import common
import lib
import runner


def make_mask(fnames):
    fn = set(fnames)

    def hit(k):
        return k.split(".")[0] in fn

    def mask(comp, v):
        if comp == "visits":
            return {k: c for k, c in v.items() if not hit(k)}
        if comp == "save" and isinstance(v, dict):
            v = dict(v)
            for key in ("visitCounts", "turnIndices"):
                if isinstance(v.get(key), dict):
                    v[key] = {k: c for k, c in v[key].items() if not hit(k)}
            # the previous-content pointer of the thread is bookkeeping, not behaviour: any behavioural
            # consequence shows up in the later operations, which are compared in full
            v = json.loads(json.dumps(v))
            for fl in (v.get("flows") or {}).values():
                for th in ((fl.get("callstack") or {}).get("threads") or []):
                    th.pop("previousContentObject", None)
            return v
        return v
    return mask


class Build:
    def __init__(self, tier, seed, named_flow=False):
        self.tier = tier
        self.rnd = random.Random(seed)

    def cfg_for(self, ex):
        names = [f["name"] for f in ex.prog["functions"]]
        return dict(mask=make_mask(names))

    def cases(self, ex, trails, batch):
        out = []
        pure = [f for f in ex.prog["functions"] if f["pure"]]
        paths = sorted(ex.paths, key=lambda t: (-len(ex.paths[t]["ops"]), t))
        if not pure or not paths:
            return out
        root = trails[()][0]
        r = self.rnd
        dense_n = 2 if self.tier == "quick" else 6

        def call(f):
            return {"op": "eval_fn", "name": f["name"], "args": [r.randint(0, 5) for _ in f["params"]], "cls": "eval"}
        for p in paths[:dense_n]:
            script = []
            for op in ex.paths[p]["ops"]:
                script.append(op)
                f = r.choice(pure)
                c = call(f)
                script.append(c)
                if r.random() < 0.5:
                    script.append(dict(c))       # repeat: same result
                if r.random() < 0.3:
                    script.append(call(r.choice(pure)))
            out.append(runner.CaseSpec(
                key="%s|dense|%s" % (ex.prog["id"], list(p)),
                scenario=common.scenario(0, ex.prog, script), root=root, info=dict(path=list(p)),
                nontrivial=lambda rs: sum(1 for x in rs if x["op"] == "eval_fn" and x.get("res") == "ok") >= 2))
        for _ in range(4 if self.tier == "quick" else 20):
            p = r.choice(paths)
            ops = ex.paths[p]["ops"]
            j = r.randint(1, len(ops))
            c = call(r.choice(pure))
            script = ops[:j] + [c, dict(c)] + ops[j:]
            out.append(runner.CaseSpec(
                key="%s|sparse|%s|%d" % (ex.prog["id"], list(p), j),
                scenario=common.scenario(0, ex.prog, script), root=root, info=dict(path=list(p), at=j, call=c),
                nontrivial=lambda rs: any(x["op"] == "eval_fn" and x.get("res") == "ok" for x in rs)))
        return out


def run(tier, seed):
    n = 40 if tier == "quick" else 500
    progs = common.gen_programs(n, seed, vars=3, functions=2.0, impure_functions=0.0)
    nviol = runner.run_relational(
        "C16", progs, Build(tier, seed), tier, seed, "model_checking",
        rule="generated programs with pure value/text functions x explored path x evaluate_function after every "
             "operation (dense) and at one position twice (sparse); non-trivial: at least one evaluation succeeded; "
             "visit/turn entries of the functions themselves are masked on both sides",
        ex_kw=dict(depth=3 if tier == "quick" else 5, max_paths=10 if tier == "quick" else 50),
        assumptions=["purity of a function is a fact of the generator (it writes no global)"])
    # evaluate_function against the executable model of the host interface (absolute oracle, Tier-S programs; the
    # functions there may write globals: what they did stays, everything else is as before the call)
    import hostmodel
    nviol += hostmodel.check("C16", "eval", tier, seed)
    return nviol
