"""./check selftest — demonstrates that the specifications are bound to the code and not vacuous.

1. records of real plays, unmodified, are accepted by InkSemTrace / InkLookTrace;
2. the same records with ONE field corrupted (a character of a line, a flag, a variable value, a choice dropped) are
   rejected, each at the corrupted place;
3. the same records against MUTANTS OF THE SPECIFICATION (the rewind keeps the look-ahead's variables; the snapshot is
   taken one step late; a once-only choice stays available) are rejected;
4. a recorded host-protocol trace (InkHostTrace) with one observation id, one result or one callback changed is
   rejected.
Exit 0 when every expectation holds, 2 otherwise (a failure here is a defect of the machinery, not of the code)."""
import copy
import json
import os
import re
import shutil
import subprocess
import sys

import common
import gen_ast
import lib

sys.path.insert(0, os.path.join(os.path.dirname(os.path.abspath(__file__)), "props"))


def tlc_in(specdir, module, env, wd):
    e = dict(os.environ, JAVA_TOOL_OPTIONS="-Xss1g -Xmx3g -Dtlc2.tool.queue.IStateQueue=StateDeque -Djava.io.tmpdir=%s" % wd)
    e.update(env)
    meta = os.path.join(wd, "meta-" + module)
    p = subprocess.run(["timeout", "900", "tlc", "-workers", "1", "-metadir", meta, "-cleanup", "-noGenerateSpecTE",
                        "-config", module + ".cfg", module + ".tla"], cwd=specdir, env=e, capture_output=True, text=True)
    out = p.stdout + p.stderr
    subprocess.run(["rm", "-rf", meta])
    mism = re.findall(r'<<"MISMATCH", "([^"]*)", (\d+), "([^"]*)"', out)
    ok = "CONSUMED" in out
    return ok, mism, out


def write(path, cases, look):
    with open(path, "w") as f:
        for c in cases:
            if look:
                f.write(json.dumps({"case": c["case"], "prog": c["prog"], "path": c["path"], "turns": c["conts"]}) + "\n")
            else:
                f.write(json.dumps({k: c[k] for k in ("case", "prog", "path", "turns", "final")}) + "\n")


def expect(name, cond, detail=""):
    lib.log("[selftest] %-72s %s %s" % (name, "ok" if cond else "FAILED", detail))
    return 0 if cond else 1


def run():
    from props import c01
    wd = lib.workdir("selftest")
    lib.build("debug")
    bad = 0
    progs = [gen_ast.generate(777000 + i, c01.DEFAULT, knots=2 + i % 2, focus="bursts" if i % 3 == 0 else None) for i in range(40)]
    cases, skipped, _ = c01.build_cases(progs, wd, depth=3, max_paths=10, per_prog=2)
    cases = [c for c in cases if not c.get("fault") and not any(r["err"] for t in c["conts"] for r in t)][:70]
    if len(cases) < 8:
        lib.log("[selftest] too few cases")
        return 2
    sem, look = os.path.join(wd, "sem.ndjson"), os.path.join(wd, "look.ndjson")

    # 1. unmodified records
    write(sem, cases, False)
    write(look, cases, True)
    ok, m, _ = tlc_in(lib.SPEC, "InkSemTrace", {"SEM": sem}, wd)
    bad += expect("recorded plays accepted by InkSemTrace", ok and not m, str(m[:2]))
    ok, m, _ = tlc_in(lib.SPEC, "InkLookTrace", {"LOOK": look}, wd)
    bad += expect("recorded plays accepted by InkLookTrace (conformance and design equivalence)", ok and not m, str(m[:2]))

    # 2. one corrupted field each
    def corrupt(kind):
        cs = copy.deepcopy(cases)
        hit = None
        for c in cs:
            for ti, turn in enumerate(c["conts"]):
                for r in turn:
                    if kind == "char" and len(r["text"]) > 2:
                        r["text"][1] = 120 if r["text"][1] != 120 else 121
                        hit = (c["case"], ti + 1)
                    elif kind == "can":
                        r["can"] = not r["can"]
                        hit = (c["case"], ti + 1)
                    elif kind == "var" and any(v["t"] == "int" for v in r["vars"].values()):
                        k = sorted(k for k, v in r["vars"].items() if v["t"] == "int")[0]
                        r["vars"][k]["v"] += 1
                        hit = (c["case"], ti + 1)
                    elif kind == "choice" and r["choices"]:
                        r["choices"].pop()
                        hit = (c["case"], ti + 1)
                    elif kind == "tag" and r["tags"]:
                        r["tags"].pop()
                        hit = (c["case"], ti + 1)
                    if hit:
                        return cs, hit
        return cs, None
    for kind in ("char", "can", "var", "choice", "tag"):
        cs, hit = corrupt(kind)
        if not hit:
            bad += expect("corrupted %s" % kind, False, "nothing to corrupt")
            continue
        write(look, cs, True)
        ok, m, _ = tlc_in(lib.SPEC, "InkLookTrace", {"LOOK": look}, wd)
        got = [(a, int(b)) for a, b, _ in m]
        bad += expect("one corrupted %s in a cont record is rejected at that turn" % kind, ok and got == [hit], "%s vs %s" % (got[:2], hit))
    cs = copy.deepcopy(cases)
    tgt = next(c for c in cs if c["final"]["counts"] and "_" not in c["final"]["counts"])
    k = sorted(tgt["final"]["counts"])[0]
    tgt["final"]["counts"][k] += 1
    write(sem, cs, False)
    ok, m, _ = tlc_in(lib.SPEC, "InkSemTrace", {"SEM": sem}, wd)
    bad += expect("one corrupted knot visit count is rejected (Final)", ok and [a for a, _, r in m if r == "Final"] == [tgt["case"]], str(m[:2]))

    # 3. mutants of the specification
    write(look, cases, True)
    write(sem, cases, False)
    mutants = [
        ("InkLook.tla", "rewind keeps the look-ahead's variables",
         'IF ch = "extended" THEN [m |-> e.snap, snap |-> NoSnap, done |-> TRUE, log |-> log]',
         'IF ch = "extended" THEN [m |-> [e.snap EXCEPT !.vars = m2.vars], snap |-> NoSnap, done |-> TRUE, log |-> log]', "InkLookTrace", "LOOK", look),
        ("InkLook.tla", "rewind keeps the look-ahead's visit counts",
         'IF ch = "extended" THEN [m |-> e.snap, snap |-> NoSnap, done |-> TRUE, log |-> log]',
         'IF ch = "extended" THEN [m |-> [e.snap EXCEPT !.cnt = m2.cnt], snap |-> NoSnap, done |-> TRUE, log |-> log]', "InkLookTrace", "LOOK", look),
        ("InkLook.tla", "a tag after a newline does not end the line",
         'ELSE IF currTags > prevTags THEN "extended"',
         'ELSE IF currTags > prevTags THEN "none"', "InkLookTrace", "LOOK", look),
        ("InkSem.tla", "a once-only choice stays available",
         "once == ~c.sticky /\\ Count(m, c.cid) > 0", "once == FALSE", "InkSemTrace", "SEM", sem),
        ("InkOutput.tla", "glue does not remove the newline before it",
         'IF it.k = "glue" THEN [out |-> Append(TrimNewlines(out), it), fnDone |-> FALSE]',
         'IF it.k = "glue" THEN [out |-> Append(out, it), fnDone |-> FALSE]', "InkSemTrace", "SEM", sem),
    ]
    for fname, what, old, new, module, var, data in mutants:
        d = os.path.join(wd, "mutant")
        shutil.rmtree(d, ignore_errors=True)
        shutil.copytree(lib.SPEC, d)
        src = open(os.path.join(d, fname)).read()
        if old not in src:
            bad += expect("mutant: " + what, False, "pattern not found in " + fname)
            continue
        open(os.path.join(d, fname), "w").write(src.replace(old, new, 1))
        ok, m, out = tlc_in(d, module, {var: data}, wd)
        bad += expect("specification mutant rejected by the recorded plays: " + what, ok and len(m) > 0, "%d cases rejected" % len(m))
        shutil.rmtree(d, ignore_errors=True)

    # 3b. mutants of the DESIGN are caught by the exhaustive design-level exploration (no code involved)
    mcprogs = c01.small_programs(3, 6)
    cfg = os.path.join(wd, "mc.cfg")
    with open(cfg, "w") as f:
        f.write("SPECIFICATION Spec\nCONSTANT MaxCalls = 4\nVIEW hview\nINVARIANT LookAheadIsInvisible\nINVARIANT MessagesOnce\nINVARIANT EvalLeavesTheStoryAlone\nINVARIANT SwitchAwayAndBack\n"
                "INVARIANT OthersUntouched\nINVARIANT SaveLoadIdentity\nINVARIANT ResetIsInitial\nINVARIANT RefusedIsNoOp\nINVARIANT ObserversMatchPolling\nCHECK_DEADLOCK FALSE\n")

    def mc(specdir):
        bad_inv = set()
        for i, pr in enumerate(mcprogs):
            path = os.path.join(wd, "mcp-%d.ndjson" % i)
            open(path, "w").write(json.dumps(pr["prog"]) + "\n")
            e = dict(os.environ, MCPROG=path)
            pp = subprocess.run(["timeout", "900", "java", "-Xss1g", "-Xmx4g", "-Djava.io.tmpdir=%s" % wd, "-XX:+UseParallelGC", "-cp", lib.TLC_CP,
                                 "tlc2.TLC", "-workers", "4", "-metadir", os.path.join(wd, "meta-mc"), "-cleanup",
                                 "-noGenerateSpecTE", "-config", cfg, "InkHostMC.tla"], cwd=specdir, env=e, capture_output=True, text=True)
            subprocess.run(["rm", "-rf", os.path.join(wd, "meta-mc")])
            bad_inv |= set(re.findall(r"Invariant (\w+) is violated", pp.stdout))
            if "No error has been found" not in pp.stdout and not bad_inv:
                bad_inv.add("TLC-ERROR")
        return bad_inv
    bad += expect("design-level invariants hold on every history of <= 4 calls (InkHostMC)", mc(lib.SPEC) == set())
    for fname, what, old, new, inv in [
        ("InkHost.tla", "a flow left behind loses its output", "FlowOf(m) == [th |-> m.th, out |-> m.out,", "FlowOf(m) == [th |-> m.th, out |-> <<>>,", "SwitchAwayAndBack"),
        ("InkLook.tla", "rewind keeps the look-ahead's visit counts",
         'IF ch = "extended" THEN [m |-> e.snap, snap |-> NoSnap, done |-> TRUE, log |-> log]',
         'IF ch = "extended" THEN [m |-> [e.snap EXCEPT !.cnt = m2.cnt], snap |-> NoSnap, done |-> TRUE, log |-> log]', "LookAheadIsInvisible"),
        ("InkHost.tla", "the handler is handed the warnings but they stay pending (handed over again at the next continue)",
         'IF h.handler THEN [m |-> [m1 EXCEPT !.err = "", !.warns = <<>>], res |-> "ok", msgs |-> pending]',
         'IF h.handler THEN [m |-> [m1 EXCEPT !.err = ""], res |-> "ok", msgs |-> pending]', "MessagesOnce|LookAheadIsInvisible"),
        ("InkLook.tla", "an error met while looking ahead is kept (the line before it is lost with the rewind that did not happen)",
         "[m |-> IF e.snap # NoSnap THEN e.snap ELSE m1, snap |-> NoSnap, done |-> TRUE,",
         "[m |-> m1, snap |-> NoSnap, done |-> TRUE,", "MessagesOnce"),
        ("InkHost.tla", "after a function evaluated by the host the story's output is not put back",
         "[h EXCEPT !.m = [m EXCEPT !.out = saved.out, !.st = saved.st,", "[h EXCEPT !.m = [m EXCEPT !.st = saved.st,", "EvalLeavesTheStoryAlone"),
        ("InkLook.tla", "a look-ahead that is kept forgets which globals it changed (the observers would not be told)",
         'ELSE IF ch = "removed" THEN [m |-> m2, snap |-> NoSnap, done |-> FALSE, log |-> log]',
         'ELSE IF ch = "removed" THEN [m |-> [m2 EXCEPT !.dirty = e.snap.dirty], snap |-> NoSnap, done |-> FALSE, log |-> log]', "ObserversMatchPolling"),
        ("InkHost.tla", "reset forgets the named flows' removal", "Reset(h) == Ok([h EXCEPT !.m = S!Start, !.cur = DefaultFlow, !.others = <<>>])",
         "Reset(h) == Ok([h EXCEPT !.m = S!Start, !.cur = DefaultFlow])", "ResetIsInitial"),
    ]:
        d = os.path.join(wd, "mutant")
        shutil.rmtree(d, ignore_errors=True)
        shutil.copytree(lib.SPEC, d)
        src = open(os.path.join(d, fname)).read()
        if old not in src:
            bad += expect("design mutant: " + what, False, "pattern not found in " + fname)
            continue
        open(os.path.join(d, fname), "w").write(src.replace(old, new, 1))
        got = mc(d)
        bad += expect("design mutant caught by TLC (%s): %s" % (inv, what), bool(set(inv.split("|")) & got), str(sorted(got)))
        shutil.rmtree(d, ignore_errors=True)

    # 4. host-protocol trace
    try:
        import relational
        from props import c09
        gp = common.gen_programs(3, 5, knots=3, choices=1.0, vars=2)
        import runner
        b = c09.Build("quick", 1) if hasattr(c09, "Build") else None
        if b is not None:
            args = ("C09", 0, gp, b, wd, getattr(c09, "EX_KW", dict(depth=2, max_paths=6)), getattr(c09, "CASE_KW", {}), "debug")
            mism, stats = runner.run_chunk(args)
            trace = os.path.join(wd, "C09-0.trace.ndjson")
            trie = os.path.join(wd, "C09-0.trie.ndjson")
            base_ok = not [x for x in mism if not x["rule"].startswith("Calib")]
            bad += expect("recorded host-protocol trace accepted by InkHostTrace", base_ok, "%d events" % stats["events"])
            evs = [json.loads(l) for l in open(trace)]
            for what, f in (("an error result turned into ok", lambda e: e.get("res") == "err" and e.update(res="ok") is None),
                            ("a line of text replaced", lambda e: e.get("cls") == "cont" and e.get("o", {}).get("text") and e["o"].update(text=999999) is None),
                            ("a callback dropped", lambda e: e.get("cb") and e.update(cb=e["cb"][:-1]) is None)):
                es = copy.deepcopy(evs)
                hit = next((i for i, e in enumerate(es) if f(e)), None)
                if hit is None:
                    lib.log("[selftest] (no event to corrupt for: %s)" % what)
                    continue
                t2 = os.path.join(wd, "corrupt.trace.ndjson")
                with open(t2, "w") as fh:
                    for e in es:
                        fh.write(json.dumps(e) + "\n")
                res = lib.run_tlc("InkHostTrace", "InkHostTrace.cfg", wd, env_extra=dict(TRIE=trie, TRACE=t2), workers=1, timeout=600)
                got = [int(x) for x in re.findall(r'<<"MISMATCH", (\d+),', res["out"])]
                bad += expect("host trace with %s is rejected at that event" % what, (hit + 1) in got, "event %d, reported %s" % (hit + 1, got[:3]))
    except Exception as ex:      # the demonstration needs the C09 driver's internals; do not fail the whole selftest on its API
        lib.log("[selftest] host-protocol part skipped: %r" % (ex,))
    lib.log("[selftest] %s" % ("all expectations hold" if not bad else "%d expectation(s) FAILED" % bad))
    return 0 if not bad else 2
