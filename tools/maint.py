"""setup / selftest / replay"""
import json
import os
import subprocess
import sys

import lib


def setup(args):
    for fl in ("debug", "release", "stream"):
        lib.build(fl)
    lib.build_rinklecate()
    bad = 0
    for f in sorted(os.listdir(lib.SPEC)):
        if f.endswith(".tla"):
            p = subprocess.run(["tla-sany", f], cwd=lib.SPEC, capture_output=True, text=True)
            if p.returncode != 0 or "Semantic errors" in p.stdout or "Parse Error" in p.stdout or "*** Errors" in p.stdout:
                lib.log("SANY failed on %s:\n%s" % (f, p.stdout[-1500:]))
                bad += 1
    if bad:
        return 2
    lib.log("[setup] ok")
    return 0


def selftest(args):
    import selftest as st
    return st.run()


def replay(args):
    """re-executes the scenario of a replay file with inkdrive alone and prints the records"""
    path = args[0]
    payload = json.load(open(path))
    sc = payload.get("scenario")
    if not sc:
        print(json.dumps(payload, indent=1)[:4000])
        return 0
    wd = lib.workdir("replay")
    recs = lib.run_inkdrive([sc], wd, name="replay", flavour=payload.get("flavour", "debug"))
    for r in recs:
        if r.get("n", 0) > 0:
            o = r.get("obs") or {}
            print(r["n"], r["op"], json.dumps({k: v for k, v in r["opfull"].items() if k != "op"}), r.get("res"),
                  r.get("errmsg") or r.get("panic") or "", "| can=%s text=%r choices=%d" % (
                      o.get("can"), o.get("text"), len(o.get("choices", []))))
    print("expected/actual:", json.dumps(payload.get("mismatch"))[:2000])
    return 0
