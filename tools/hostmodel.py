"""Host histories against the executable model spec/InkHost.tla (validator spec/InkHostOps.tla).

Programs are generated as syntax trees (gen_ast); a history is a random sequence of public calls drawn from a profile;
the real engine plays it (inkdrive); TLC answers every call from the syntax tree alone and compares result, text, tags,
can-continue, choices, globals, the current and the alive flows and the structure of the save document.

Profiles (one per property that uses this oracle):
  plain   cont, choose (valid and invalid index), set_var, choose_path             -> C01 / C09
  save    plain + save / load into slots (also a slot never saved)                  -> C02
  saveflows  save + flows: saves with flows waiting in the background, the flows looked at after the load   -> C02
  flows   plain + switch_flow / switch_to_default / remove_flow                      -> C10
  reset   plain + reset_state                                                       -> C17
  refuse  plain with mostly invalid arguments (unknown variable, path, flow, slot)   -> C09
  eval    plain + evaluate_function (functions of the story with arguments, unknown names)  -> C16
  observe plain + observe_variable / remove_variable_observer; the notifications of every call are compared   -> C11
  slices  continues replaced by time-limited continues (step budgets), guarded calls in between               -> C08
  exhaustive  EVERY sequence of 2 (quick) / 3 (thorough) calls over an alphabet of valid and invalid forms of every kind
          of call, on a few programs, framed by turns                                                                   -> C09
  externs plain play, line by line, of programs whose external functions are bound (look-ahead safe or not):
          the calls the host receives during every continue - function, arguments, order, and WHEN - are compared     -> C12
  errors  programs that raise runtime errors (a divisor that is zero, a loose end) and warnings (a temporary read before
          its declaration ran) at chosen points, played with and without an error handler, with continues, choices, path
          jumps, save / load and resets after the fault: what the handler receives during every call, what stays readable,
          the result of every continue and whether the story can go on are compared                                    -> C13
A mismatch is attributed to the property of the profile only from the first call of the profile's own kind on;
earlier ones are handed to C01 (plain play), whose check runs the plain profile itself."""
import json
import os
import random
import re
import time

import gen_ast
import lib

SPECIAL = {"save": {"save", "load"}, "saveflows": {"save", "load"}, "flows": {"switch_flow", "switch_default", "remove_flow"}, "reset": {"reset"},
           "eval": {"eval_fn"}, "observe": {"observe", "remove_observer"}, "slices": {"cont_async"}, "refuse": None, "plain": None, "externs": None, "mixed": None, "exhaustive": None, "errors": None}
OWNER = {"save": "C02", "saveflows": "C02", "flows": "C10", "reset": "C17", "refuse": "C09", "plain": "C01", "eval": "C16", "observe": "C11",
         "slices": "C08", "externs": "C12", "mixed": "C09", "exhaustive": "C09", "errors": "C13"}


def msg_class(text):
    """the kind of a runtime message, as the model names it (None: not a message of the model's fragment)"""
    if "Cannot divide" in text or "Cannot take" in text:
        return "division"
    if "ran out of content" in text or "unexpectedly reached end of content" in text:
        return "out"
    if "Variable not found" in text:
        return "novar"
    return None


def chars(s):
    return [ord(c) for c in s]


def history(rnd, prog, profile, length):
    """a list of op dicts for inkdrive"""
    knots = [k for k, v in prog["prog"]["knots"].items() if v["kind"] == "knot" and not v["params"]]
    ints = [g["n"] for g in prog["prog"]["globals"] if g["v"]["t"] == "int"]
    ops = [{"op": "new"}]
    weights = {"cont": 10, "choose": 4, "set_var": 1.5, "choose_path": 1.0}
    if profile == "save":
        weights.update(save=2, load=2)
    if profile == "flows":
        weights.update(switch_flow=2.5, switch_default=1, remove_flow=1)
    if profile == "saveflows":
        # saves taken while other flows wait in the background, loads followed by a look at those flows
        weights.update(save=2.5, load=2.5, switch_flow=2.5, switch_default=1, remove_flow=0.4)
    if profile == "reset":
        weights.update(reset=1.2)
    funcs = [(k, len(v["params"])) for k, v in prog["prog"]["knots"].items() if v["kind"] == "function"]
    if profile == "eval":
        weights.update(eval_fn=5)
    gvars = [g["n"] for g in prog["prog"]["globals"]]
    if profile == "observe":
        weights.update(observe=1.5, remove_observer=1, set_var=3, reset=0.5, watch=1.5)
        for v in gvars:
            ops.append({"op": "observe", "obs": 1, "var": v})
    names = list(weights)
    if profile == "mixed":
        # everything together: a hunting profile (not part of a registered check; whatever it finds is attributed by hand)
        weights.update(save=1.5, load=1.5, switch_flow=1.5, switch_default=0.7, remove_flow=0.7, reset=0.5, eval_fn=2,
                       observe=1, remove_observer=0.5, watch=0.5)
    if profile == "externs":
        weights.update(cont=14, choose=5, set_var=0.5, choose_path=0.7)
    if profile == "errors":
        weights.update(cont=12, choose=5, set_var=3, choose_path=1.5, reset=1.5, save=0.7, load=0.7)
        if rnd.random() < 0.6:
            ops.append({"op": "set_handler"})
    if profile == "slices":
        weights.update(cont_async=12, cont=3, choose=4, switch_flow=0.7, reset=0.3, choose_path=1.5)
    names = list(weights)
    bad = 0.6 if profile == "refuse" else 0.12
    if profile == "save" and rnd.random() < 0.5:
        # line by line, with a save and a load of it at a line end in the middle of a turn, then on to the choices
        for _ in range(max(2, length // 3)):
            ops += [{"op": "cont"}] * rnd.choice([1, 2, 3])
            slot = rnd.choice(["a", "b"])
            ops += [{"op": "save", "slot": slot}] + ([{"op": "cont"}] if rnd.random() < 0.5 else []) + [{"op": "load", "slot": slot}]
            ops += [{"op": "turn"}, {"op": "choose", "i": rnd.randrange(1 << 16), "mod": True}]
        return ops
    if profile == "saveflows" and rnd.random() < 0.6 and knots:
        # a flow that has printed something waits in the background while the host saves; after the load the host looks
        # at that flow BEFORE continuing it (its text, tags and choices are those it was left with)
        for _ in range(max(2, length // 5)):
            f = rnd.choice(["f1", "f2"])
            ops += [{"op": "cont"}] * rnd.choice([1, 2])
            ops += [{"op": "switch_flow", "name": f}, {"op": "choose_path", "path": rnd.choice(knots), "reset": True}]
            ops += [{"op": "cont"}] * rnd.choice([1, 2, 3])
            ops += [{"op": rnd.choice(["switch_default", "switch_default", "nop"])}]
            slot = rnd.choice(["a", "b"])
            ops += [{"op": "save", "slot": slot}]
            ops += rnd.choice([[], [{"op": "cont"}], [{"op": "switch_flow", "name": f}, {"op": "cont"}, {"op": "switch_default"}]])
            ops += [{"op": "load", "slot": slot}, {"op": "switch_flow", "name": f}, {"op": "cont"}, {"op": "switch_default"}]
            ops += [{"op": "turn"}, {"op": "choose", "i": rnd.randrange(1 << 16), "mod": True}]
        return [o for o in ops if o["op"] != "nop"]
    for step in range(length):
        k = rnd.choices(names, [weights[n] for n in names])[0]
        if profile == "errors" and step == length // 2 and rnd.random() < 0.3:
            ops.append({"op": "set_handler"})        # a handler installed late: what is pending is handed over at the next continue
        if k == "cont":
            # mostly to the end of the turn (as many conts as the story allows), sometimes single lines
            ops += [{"op": "turn"}] if rnd.random() < (0.55 if profile != "externs" else 0.8) else [{"op": "cont"}] * rnd.choice([1, 1, 2])
        elif k == "choose":
            if rnd.random() > bad:
                ops.append({"op": "choose", "i": rnd.randrange(1 << 16), "mod": True})     # a valid index if anything is on offer
            else:
                ops.append({"op": "choose", "i": rnd.choice([5, 9, 40])})
            ops += [{"op": "turn"}] if rnd.random() < 0.5 else [{"op": "cont"}] * rnd.choice([1, 2])
        elif k == "set_var":
            name = rnd.choice(ints) if ints and rnd.random() > bad else "nosuch"
            ops.append({"op": "set_var", "name": name, "value": {"t": "int", "v": 0 if profile == "errors" and rnd.random() < 0.6 else rnd.randint(0, 5)}})
        elif k == "choose_path":
            name = rnd.choice(knots) if rnd.random() > bad else rnd.choice(["nosuch", "k99"])
            ops.append({"op": "choose_path", "path": name, "reset": rnd.random() < 0.5})
            ops += [{"op": "cont"}] * rnd.choice([1, 2, 3])
        elif k == "save":
            ops.append({"op": "save", "slot": rnd.choice(["a", "b"])})
        elif k == "load":
            ops.append({"op": "load", "slot": rnd.choice(["a", "b", "a", "b", "never"])})
            ops += [{"op": "cont"}] * rnd.choice([0, 1, 3])
        elif k == "switch_flow":
            ops.append({"op": "switch_flow", "name": rnd.choice(["f1", "f2", "f1", "DEFAULT_FLOW"])})
            if rnd.random() < 0.6 and knots:
                ops.append({"op": "choose_path", "path": rnd.choice(knots), "reset": True})
            ops += [{"op": "cont"}] * rnd.choice([1, 2, 3])
        elif k == "switch_default":
            ops.append({"op": "switch_default"})
            ops += [{"op": "cont"}] * rnd.choice([0, 1, 2])
        elif k == "remove_flow":
            ops.append({"op": "remove_flow", "name": rnd.choice(["f1", "f2", "f1", "DEFAULT_FLOW", "zz"])})
        elif k == "watch":
            # several observers on one variable, one of them taken away again, then the variable changes
            v = rnd.choice(gvars)
            ops += [{"op": "observe", "obs": 2, "var": v}, {"op": "observe", "obs": 3, "var": v}]
            ops.append({"op": "remove_observer", "obs": rnd.choice([1, 2, 3]), "var": v})
            if v in ints:
                ops.append({"op": "set_var", "name": v, "value": {"t": "int", "v": rnd.randint(6, 9)}})
            ops.append({"op": "turn"})
        elif k == "observe":
            ops.append({"op": "observe", "obs": rnd.choice([1, 2, 3]), "var": rnd.choice(gvars) if rnd.random() > bad else "nosuch"})
        elif k == "remove_observer":
            ops.append({"op": "remove_observer", "obs": rnd.choice([1, 2, 3]), "var": rnd.choice(gvars)})
        elif k == "cont_async":
            # slices of a few interpreter steps each until the line is finished (or the history moves on mid-line)
            for _ in range(rnd.choice([1, 2, 3, 6])):
                ops.append({"op": "cont_async", "budget": rnd.choice([1, 2, 3, 5, 8, 13, 40])})
                if rnd.random() < 0.25:
                    ops.append(rnd.choice([{"op": "choose_path", "path": rnd.choice(knots) if knots else "k0", "reset": True},
                                           {"op": "switch_flow", "name": "f1"}, {"op": "reset"}, {"op": "choose", "i": 0},
                                           {"op": "observe", "obs": 4, "var": gvars[0]}]))
            # a plain continue finishes a sliced one that is still unfinished (and is an ordinary continue or a refused one
            # otherwise): the other calls of the history then never fall into the middle of a line
            ops.append({"op": "cont"})
        elif k == "switch_flow" and profile == "slices":
            ops.append({"op": "switch_flow", "name": rnd.choice(["f1", "DEFAULT_FLOW"])})
        elif k == "eval_fn":
            if funcs and rnd.random() > bad:
                f, n = rnd.choice(funcs)
                # (a truth value handed over by the host stays a truth value: printed "true", returned as a bool - seeded change c16-4;
                # the host's test externals take a truth value as 1 / 0 (coerce_to_int), and so does Lin in InkSem - the first
                # thorough run with truth values found the model answering 0 for true: a false alarm, DESIGN 11.5)
                ops.append({"op": "eval_fn", "name": f, "args": [{"t": "bool", "v": rnd.random() < 0.5} if rnd.random() < 0.3 else
                                                                 {"t": "int", "v": rnd.randint(0, 4)} for _ in range(n)]})
            else:
                ops.append({"op": "eval_fn", "name": rnd.choice(["nosuch", "f99"]), "args": []})
        elif k == "reset":
            ops.append({"op": "reset"})
            ops += [{"op": "cont"}] * rnd.choice([1, 2, 3])
    return ops


def alphabet(prog):
    """the calls of the exhaustive small-scope histories: valid and invalid forms of every kind of call"""
    knots = [k for k, v in prog["prog"]["knots"].items() if v["kind"] == "knot" and not v["params"]]
    ints = [g["n"] for g in prog["prog"]["globals"] if g["v"]["t"] == "int"]
    funcs = [(k, len(v["params"])) for k, v in prog["prog"]["knots"].items() if v["kind"] == "function"]
    k1 = knots[1] if len(knots) > 1 else knots[0]
    ops = [[{"op": "cont"}], [{"op": "turn"}], [{"op": "choose", "i": 0}], [{"op": "choose", "i": 1}], [{"op": "choose", "i": 9}],
           [{"op": "set_var", "name": ints[0] if ints else "nosuch", "value": {"t": "int", "v": 5}}],
           [{"op": "set_var", "name": "nosuch", "value": {"t": "int", "v": 1}}],
           [{"op": "choose_path", "path": k1, "reset": True}], [{"op": "choose_path", "path": k1, "reset": False}],
           [{"op": "choose_path", "path": "nosuch", "reset": True}],
           [{"op": "switch_flow", "name": "f1"}], [{"op": "switch_default"}], [{"op": "remove_flow", "name": "f1"}],
           [{"op": "save", "slot": "a"}], [{"op": "load", "slot": "a"}], [{"op": "load", "slot": "never"}], [{"op": "reset"}]]
    if funcs:
        f, n = funcs[0]
        ops.append([{"op": "eval_fn", "name": f, "args": [{"t": "int", "v": 1}] * n}])
    ops.append([{"op": "eval_fn", "name": "nosuch", "args": []}])
    return ops


def exhaustive_histories(prog, depth):
    """every sequence of `depth` calls of the alphabet, each after a first turn and followed by a turn (so that what the
    sequence did to the story shows)"""
    import itertools
    al = alphabet(prog)
    out = []
    for combo in itertools.product(range(len(al)), repeat=depth):
        ops = [{"op": "new"}, {"op": "turn"}]
        for i in combo:
            ops += [dict(o) for o in al[i]]
        ops += [{"op": "turn"}, {"op": "choose", "i": 0}, {"op": "turn"}]
        out.append(ops)
    return out


def run(profile, tier, seed, nprog=None, nhist=None, length=None, name=None):
    """returns (mismatches attributed to the profile's property, handed-over mismatches, stats)"""
    from props import c01
    t0 = time.time()
    quick = tier == "quick"
    nprog = nprog or (16 if quick else 120)
    nhist = nhist or (3 if quick else 6)
    length = length or (14 if quick else 30)
    name = name or "host-" + profile
    wd = lib.workdir("HOST-" + profile)
    lib.build("debug")
    rnd = random.Random("%s/%s" % (profile, seed))
    focus = {"save": "threads", "observe": "assign", "externs": "externs"}.get(profile)
    features = c01.DEFAULT | {"faults"} if profile == "errors" else c01.DEFAULT
    progs = [gen_ast.generate(seed * 7000003 + i + 31 * sum(map(ord, profile)), features, knots=2 + i % 3,
                              focus=focus if i % 2 else None) for i in range(nprog)]
    scs, meta = [], {}
    if profile == "exhaustive":
        progs = progs[:2]
    for pi, p in enumerate(progs):
        hs = exhaustive_histories(p, 2 if quick else 3) if profile == "exhaustive" else [history(rnd, p, profile, length) for _ in range(nhist)]
        for hi, ops in enumerate(hs):
            key = "%s-%d/%d" % (profile, p["seed"], hi)
            meta[key] = (p, ops)
            # (external functions are bound before the first call of the history)
            ops = ops[:1] + p.get("binds", []) + ops[1:]
            scs.append({"case": key, "programs": [{"ink": p["ink"]}], "seed": 7, "fuel": 20000,
                        "obs": {"save": True, "vars": True, "visits": False}, "script": ops})
    recs = lib.run_inkdrive(scs, wd, name=name, timeout=1800)
    cases, skipped = [], dict(compile_errors=0, faulted=0)
    for key, rs in lib.by_case(recs).items():
        key = json.loads(key)
        p, ops = meta[key]
        hdr = [r for r in rs if r.get("op") == "programs"]
        if not hdr or hdr[0]["programs"][0].get("compile_error"):
            skipped["compile_errors"] += 1
            continue
        flows = set(p["prog"]["knots"])
        out, bad, carried = [], False, []
        for r in rs:
            if r.get("n", 0) <= 0 or r.get("op") in ("new", "bind"):
                continue
            o = r.get("obs") or {}
            texts = list(o.get("errors") or []) + list(o.get("warnings") or []) + [c["text"] for c in (r.get("cb") or []) if c.get("k") == "msg"]
            if r.get("res") in ("panic", "skipped") or "obs_panic" in r or any(msg_class(t) is None for t in texts) or \
                    (texts and profile != "errors"):
                # a message outside the model's fragment (the step fuel of the harness, ...); and only the errors profile goes
                # on after a runtime message (function evaluation, slices and external calls on a failed story are not modelled)
                bad = True
                break
            op = r["opfull"]
            sv = c01.save_view(o["save"], flows) if isinstance(o.get("save"), dict) and "flows" in o["save"] else None
            vs = {k: c01.value_json(v) for k, v in (o.get("vars") or {}).items() if c01.value_json(v)}
            # (mid-line, during an unfinished time-limited continue, text and tags are refused: not compared then)
            text = o.get("text") if isinstance(o.get("text"), str) else ""
            tags = o.get("tags") if isinstance(o.get("tags"), list) else []
            seen = {"text": chars(text), "tags": [chars(t) for t in tags], "can": bool(o.get("can")),
                    "choices": [{"text": chars(c["text"]), "tags": [chars(t) for t in c.get("tags", [])]} for c in o.get("choices", [])],
                    "vars": vs or {"_": {"t": "int", "v": 0}},
                    "nerr": len(o.get("errors") or []), "warns": [msg_class(t) for t in (o.get("warnings") or [])],
                    "cur": (o.get("save") or {}).get("currentFlowName", "") if isinstance(o.get("save"), dict) else "",
                    "alive": sorted(((o.get("save") or {}).get("flows") or {}).keys()) if isinstance(o.get("save"), dict) else []}
            ret = (r.get("val") or {}).get("ret") if op["op"] == "eval_fn" and isinstance(r.get("val"), dict) else None
            if ret is not None and c01.value_json(ret) is None:
                bad = True      # (a value outside the model's types)
                break
            # external calls of unfinished slices belong to the continue that the finishing slice completes
            mine = c01.ext_calls(r)
            if op["op"] == "cont_async" and not r.get("finished", True) and r.get("res") == "ok":
                carried, calls = carried + mine, []
            elif op["op"] in ("cont", "cont_async") and r.get("res") == "ok":
                carried, calls = [], carried + mine
            else:
                calls = mine
            notes = [{"o": c["o"], "var": c["var"], "val": c01.value_json(c["val"]) or {"t": "other"}}
                     for c in (r.get("cb") or []) if c.get("k") == "obs"]
            out.append({"op": op["op"], "i": r.get("chosen", op.get("obs", op.get("i", 0))),
                        "name": op.get("name", op.get("path", op.get("var", ""))), "notes": notes,
                        "calls": calls,
                        "msgs": [{"k": c["type"], "c": msg_class(c["text"])} for c in (r.get("cb") or []) if c.get("k") == "msg"],
                        "finished": bool(r.get("finished", True)),
                        "args": op.get("args", []), "val": c01.value_json(ret) if ret is not None else {"t": "void"},
                        "ftext": chars((r.get("val") or {}).get("text", "")) if op["op"] == "eval_fn" and isinstance(r.get("val"), dict) else [],
                        "value": op.get("value", {"t": "int", "v": 0}), "reset": bool(op.get("reset", False)),
                        "slot": op.get("slot", ""), "res": "ok" if r.get("res") == "ok" else "err", "seen": seen,
                        "sv": sv if sv is not None else []})
        if bad or not out:
            skipped["faulted"] += 1
            if not out:
                continue
        # (a prefix of a history is a history: very long ones - turns of hundreds of lines - are cut)
        cases.append({"case": key, "prog": p["prog"], "ops": out[:100]})
    if not cases:
        raise lib.ToolError("host model: no usable history (%s)" % skipped)
    # TLC, sharded
    from concurrent.futures import ThreadPoolExecutor

    def one(a):
        idx, part = a
        path = os.path.join(wd, "%s-%d.host.ndjson" % (name, idx))
        with open(path, "w") as f:
            for c in part:
                f.write(json.dumps(c) + "\n")
        res = lib.run_tlc("InkHostOps", "InkHostOps.cfg", wd, env_extra={"HOST": path}, workers=1, timeout=3000, xmx="3g")
        if not res["ok"] or not lib.tlc_prints(res["out"], "CONSUMED"):
            raise lib.ToolError("InkHostOps failed:\n" + "\n".join(res["out"].splitlines()[-30:]))
        mm = []
        for line in lib.tlc_prints(res["out"], "MISMATCH"):
            m = re.match(r'<<"MISMATCH", "([^"]*)", (\d+), "([^"]*)", "([^"]*)", "(.*)">>$', line)
            if not m:
                raise lib.ToolError("unparsable MISMATCH line: " + line[:300])
            mm.append(dict(case=m.group(1), op_index=int(m.group(2)), rule=m.group(3), op=m.group(4),
                           expected=json.loads(json.loads('"' + m.group(5) + '"'))))
        return res, mm
    jobs = max(1, min(10, len(cases) // 6 or 1))
    with ThreadPoolExecutor(jobs) as ex:
        outs = list(ex.map(one, enumerate([cases[i::jobs] for i in range(jobs)])))
    mism = [m for _, mm in outs for m in mm]
    bycase = {c["case"]: c for c in cases}
    own, handed = [], []
    special = SPECIAL[profile]
    for m in mism:
        c = bycase[m["case"]]
        p, ops = meta[m["case"]]
        m["story"] = p["ink"]
        m["history"] = [dict((k, v) for k, v in o.items() if k in ("op", "i", "name", "value", "reset", "slot", "res")) for o in c["ops"][:m["op_index"]]]
        m["actual"] = dict(res=c["ops"][m["op_index"] - 1]["res"], seen=c["ops"][m["op_index"] - 1]["seen"],
                           notes=c["ops"][m["op_index"] - 1]["notes"], finished=c["ops"][m["op_index"] - 1]["finished"])
        before = c["ops"][:m["op_index"]]
        if profile == "errors":
            # from the first message (or the installation of the handler) on, and whatever concerns messages
            mine = m["rule"] in ("Host.messages", "Host.errors", "Host.warnings") or any(
                o["msgs"] or o["seen"]["nerr"] or o["seen"]["warns"] or o["op"] == "set_handler" for o in before)
        elif special is None:
            mine = profile in ("plain", "externs", "exhaustive") or any(o["res"] == "err" for o in before)
        else:
            # (for the reset profile a path jump WITH call-stack reset is a call of the profile's kind, too)
            mine = any(o["op"] in special or (profile == "reset" and o["op"] == "choose_path" and o["reset"]) for o in before)
        (own if mine else handed).append(m)
    stats = dict(histories=len(cases), calls=sum(len(c["ops"]) for c in cases), programs=len(progs),
                 refused_calls=sum(1 for c in cases for o in c["ops"] if o["res"] == "err"),
                 special_calls=sum(1 for c in cases for o in c["ops"] if special and (o["op"] in special or profile == "reset" and o["op"] == "choose_path" and o["reset"])),
                 messages_to_handler=sum(len(o["msgs"]) for c in cases for o in c["ops"]),
                 failed_continues=sum(1 for c in cases for i, o in enumerate(c["ops"]) if o["op"] == "cont" and o["res"] == "err" and o["seen"]["nerr"]
                                      and (i == 0 or not c["ops"][i - 1]["seen"]["nerr"])),
                 calls_with_pending_warnings=sum(1 for c in cases for o in c["ops"] if o["seen"]["warns"]),
                 states=sum(r["distinct"] for r, _ in outs), transitions=sum(r["states"] for r, _ in outs), skipped=skipped,
                 wall=time.time() - t0, sample=dict(story=meta[cases[0]["case"]][0]["ink"],
                                                    history=[dict((k, v) for k, v in o.items() if k in ("op", "i", "name", "reset", "slot", "res")) for o in cases[0]["ops"][:25]]))
    return own, handed, stats


def fingerprint(m):
    return "%s/%s" % (m["rule"], m["op"])


def report(prop, profile, own, handed, stats):
    """prints VIOLATION / KNOWN-FINDING lines for the mismatches owned by prop; returns the number of violations"""
    known = {k["fp"]: k for k in lib.known_findings() if k["prop"] == prop}
    nviol, seen = 0, {}
    for m in handed:
        lib.log("[%s] host model: handed to %s: %s at call %d of %s" % (prop, OWNER["plain"], m["rule"], m["op_index"], m["case"]))
    for m in own:
        fp = fingerprint(m)
        if fp in known:
            if fp not in seen:
                print("KNOWN-FINDING: property=%s %s %s" % (prop, fp, known[fp]["text"]))
            seen[fp] = seen.get(fp, 0) + 1
            continue
        seen[fp] = seen.get(fp, 0) + 1
        nviol += 1
        if seen[fp] <= 2:
            path = lib.write_replay(prop, dict(fingerprint=fp, oracle="spec/InkHost.tla (profile %s)" % profile, case=m["case"],
                                               failing_call=m["op_index"], rule=m["rule"], story=m["story"], history=m["history"],
                                               expected=m["expected"], actual=m["actual"]))
            print("VIOLATION property=%s replay=%s" % (prop, path))
    lib.log("[%s] host model (%s): histories=%d calls=%d refused=%d special=%d msgs=%d/%d/%d states=%d violations=%d %s wall=%.1fs" % (
        prop, profile, stats["histories"], stats["calls"], stats["refused_calls"], stats["special_calls"],
        stats["messages_to_handler"], stats["failed_continues"], stats["calls_with_pending_warnings"], stats["states"], nviol,
        json.dumps(seen), stats["wall"]))
    return nviol


def check(prop, profile, tier, seed):
    """runs the profile, reports, and adds what was covered to the property's evidence file (written before by the
    property's main check)"""
    own, handed, stats = run(profile, tier, seed)
    nviol = report(prop, profile, own, handed, stats)
    path = os.path.join(lib.VERIF, "evidence", "%s.json" % prop)
    if os.path.exists(path):
        ev = json.load(open(path))
        cov = ev.setdefault("coverage", {})
        cov["host_model" if "host_model" not in cov or cov["host_model"].get("profile") == profile else "host_model_" + profile] = dict(oracle="spec/InkHost.tla via spec/InkHostOps.tla", profile=profile, histories=stats["histories"],
                                 calls=stats["calls"], refused_calls=stats["refused_calls"], calls_of_the_profile=stats["special_calls"],
                                 states=stats["states"], skipped=stats["skipped"], messages_to_handler=stats["messages_to_handler"],
                                 failed_continues=stats["failed_continues"], calls_with_pending_warnings=stats["calls_with_pending_warnings"], sample=stats["sample"], violations=nviol)
        cov["states"] = cov.get("states", 0) + stats["states"]
        cov["transitions"] = cov.get("transitions", 0) + stats["transitions"]
        cov["traces_validated_against_impl"] = cov.get("traces_validated_against_impl", 0) + stats["histories"]
        ev["violations"] = ev.get("violations", 0) + nviol
        ev["wall_s"] = round(ev.get("wall_s", 0) + stats["wall"], 2)
        json.dump(ev, open(path, "w"), indent=1, sort_keys=True)
    return nviol


if __name__ == "__main__":
    import sys
    prof = sys.argv[1] if len(sys.argv) > 1 else "plain"
    own, handed, stats = run(prof, "quick", int(sys.argv[2]) if len(sys.argv) > 2 else 1)
    n = report(OWNER[prof], prof, own, handed, stats)
    for m in (own + handed)[:3]:
        print(json.dumps({k: m[k] for k in ("case", "op_index", "rule", "op", "history")})[:1500])

        def t(x):
            if isinstance(x, list) and x and all(isinstance(c, int) and c > 8 for c in x):
                return "".join(chr(c) for c in x)
            if isinstance(x, list):
                return [t(y) for y in x]
            if isinstance(x, dict):
                return {k: t(v) for k, v in x.items()}
            return x
        print(" EXPECTED", json.dumps(t(m["expected"]))[:1500])
        print(" ACTUAL  ", json.dumps(t(m["actual"]))[:1500])
        print(m["story"][:300])
