"""Shared machinery: building the harness from /repo's working tree, running inkdrive, running TLC,
interning observations for TLC, writing evidence and replay files."""
import hashlib
import json
import os
import re
import subprocess
import sys
import time

VERIF = os.path.dirname(os.path.dirname(os.path.abspath(__file__)))
HARNESS = os.path.join(VERIF, "harness")
SPEC = os.path.join(VERIF, "spec")
WORK = os.path.join(VERIF, "work")
REPO = "/repo"
CORPUS = os.path.join(REPO, "conformance-tests", "inkfiles")


class ToolError(Exception):
    """machinery failure (exit 2) — never reported as a violation"""


def log(*a):
    print(*a, file=sys.stderr, flush=True)


def workdir(name):
    d = os.path.join(WORK, name)
    os.makedirs(d, exist_ok=True)
    return d


# --------------------------------------------------------------------------- build
_built = {}


def source_state():
    """identifies the content of /repo's working tree (commit + uncommitted changes + untracked sources)"""
    def git(*a):
        return subprocess.run(["git", "-C", REPO] + list(a), capture_output=True, text=True).stdout
    return hashlib.sha256((git("rev-parse", "HEAD") + git("diff", "HEAD") + git("status", "--porcelain")).encode()).hexdigest()


def force_rebuild_if_sources_changed(tag):
    """cargo decides by modification times whether a crate is fresh; a change applied and reverted within the clock's
    granularity of a previous build can be missed.  The content of /repo's working tree decides here: when it differs
    from what the last build of this flavour saw, the crate roots are touched (time stamp only) so that cargo rebuilds."""
    mark = os.path.join(HARNESS, ".built-from-%s" % tag)
    now = source_state()
    try:
        old = open(mark).read()
    except OSError:
        old = ""
    if old != now:
        for rel in ("runtime/src/lib.rs", "compiler/src/lib.rs", "rinklecate/src/main.rs"):
            path = os.path.join(REPO, rel)
            if os.path.exists(path):
                os.utime(path, None)
        with open(mark, "w") as f:
            f.write(now)


def build(flavour="debug"):
    """flavours: debug, release, stream (debug + stream-json-parser, own target dir)"""
    if flavour in _built:
        return _built[flavour]
    env = dict(os.environ, CARGO_NET_OFFLINE="true")
    cmd = ["cargo", "build", "--offline", "--quiet", "--bin", "inkdrive"]
    tdir = "target"
    force_rebuild_if_sources_changed(flavour)
    if flavour == "release":
        cmd.append("--release")
    if flavour == "stream":
        cmd += ["--features", "stream", "--target-dir", "target-stream"]
        tdir = "target-stream"
    t0 = time.time()
    p = subprocess.run(cmd, cwd=HARNESS, env=env, capture_output=True, text=True)
    if p.returncode != 0:
        raise ToolError("cargo build (%s) failed:\n%s" % (flavour, p.stderr[-4000:]))
    exe = os.path.join(HARNESS, tdir, "release" if flavour == "release" else "debug", "inkdrive")
    log("[build] %s %.1fs" % (flavour, time.time() - t0))
    _built[flavour] = exe
    return exe


def build_rinklecate():
    if "rinklecate" in _built:
        return _built["rinklecate"]
    env = dict(os.environ, CARGO_NET_OFFLINE="true")
    tdir = os.path.join(HARNESS, "target-cli")
    force_rebuild_if_sources_changed("cli")
    p = subprocess.run(["cargo", "build", "--offline", "--quiet", "-p", "rinklecate", "--target-dir", tdir],
                       cwd=REPO, env=env, capture_output=True, text=True)
    if p.returncode != 0:
        raise ToolError("cargo build rinklecate failed:\n%s" % p.stderr[-4000:])
    _built["rinklecate"] = os.path.join(tdir, "debug", "rinklecate")
    return _built["rinklecate"]


# --------------------------------------------------------------------------- inkdrive
PROBE_FLAVOUR = None


def run_inkdrive(scenarios, wd, name="run", flavour="debug", timeout=600, env_extra=None):
    """scenarios: list of dicts. Returns list of records (dicts).  An abnormal exit of the
    harness process is attributed to the last begun case: a synthetic record
    {"case":..,"op":"abort","res":"abort"} is inserted and the remaining cases are re-run."""
    if PROBE_FLAVOUR and name.startswith("probe"):
        flavour = PROBE_FLAVOUR          # (C03: the replays of the explored paths run in another build profile)
    exe = build(flavour)
    records = []
    pending = list(scenarios)
    rnd = 0
    while pending:
        rnd += 1
        inp = os.path.join(wd, "%s.%d.in.ndjson" % (name, rnd))
        outp = os.path.join(wd, "%s.%d.out.ndjson" % (name, rnd))
        with open(inp, "w") as f:
            for sc in pending:
                f.write(json.dumps(sc) + "\n")
        env = dict(os.environ)
        if env_extra:
            env.update(env_extra)
        try:
            p = subprocess.run([exe, inp, outp], capture_output=True, text=True, timeout=timeout, env=env)
            rc = p.returncode
            err = p.stderr
        except subprocess.TimeoutExpired:
            rc = -999
            err = "timeout"
        recs = []
        with open(outp) as f:
            for line in f:
                line = line.strip()
                if not line:
                    continue
                try:
                    recs.append(json.loads(line))
                except ValueError:
                    pass  # torn last line after an abort
        records += recs
        if rc == 0:
            break
        # find the case that was running
        begun = [r["case"] for r in recs if r.get("op") == "begin"]
        ended = [r["case"] for r in recs if r.get("op") == "end"]
        if not begun:
            raise ToolError("inkdrive failed before any case: rc=%s %s" % (rc, err[-2000:]))
        culprit = begun[-1]
        if culprit in ended:
            raise ToolError("inkdrive failed between cases: rc=%s %s" % (rc, err[-2000:]))
        records.append({"case": culprit, "n": -5, "op": "abort", "res": "abort", "rc": rc, "stderr": err[-1500:]})
        idx = [i for i, sc in enumerate(pending) if sc.get("case") == culprit]
        pending = pending[idx[0] + 1:] if idx else []
    return records


def by_case(records):
    d = {}
    for r in records:
        d.setdefault(json.dumps(r.get("case")), []).append(r)
    return d


# --------------------------------------------------------------------------- TLC
TLC_JAR = "/opt/veriftools/tla/tla2tools.jar"
TLC_CP = TLC_JAR + ":/opt/veriftools/tla/CommunityModules-deps.jar"


def run_tlc(module, cfg, wd, env_extra=None, workers=1, timeout=900, simulate=None, depth=None,
            xmx="3g", deque=True, extra=None):
    """runs TLC on spec/<module>.tla with spec/<cfg>; returns dict(rc, out, states, distinct, ok)"""
    import uuid
    meta = os.path.join(wd, "tlc-%s-%s" % (module, uuid.uuid4().hex[:10]))
    os.makedirs(meta, exist_ok=True)
    # (the JVM options are given on the command line, not through JAVA_TOOL_OPTIONS: the stack size of the MAIN thread -
    # which evaluates the invariants on the initial states - is fixed by the launcher before that variable is read)
    jopts = ["-Xss1g", "-Xmx%s" % xmx, "-Djava.io.tmpdir=%s" % meta, "-XX:+UseParallelGC"]
    if deque:
        jopts.append("-Dtlc2.tool.queue.IStateQueue=StateDeque")
    env = dict(os.environ)
    env.pop("JAVA_TOOL_OPTIONS", None)
    if env_extra:
        env.update({k: str(v) for k, v in env_extra.items()})
    cmd = ["timeout", str(timeout), "java"] + jopts + ["-cp", TLC_CP, "tlc2.TLC", "-workers", str(workers), "-metadir", meta, "-cleanup",
           "-noGenerateSpecTE", "-config", cfg if os.path.isabs(cfg) else os.path.join(SPEC, cfg)]
    if simulate:
        cmd += ["-simulate", "num=%d" % simulate]
    if depth:
        cmd += ["-depth", str(depth)]
    if extra:
        cmd += extra
    cmd.append(os.path.join(SPEC, module + ".tla"))
    t0 = time.time()
    p = subprocess.run(cmd, cwd=SPEC, env=env, capture_output=True, text=True)
    out = p.stdout + p.stderr
    res = dict(rc=p.returncode, out=out, wall=time.time() - t0, states=0, distinct=0)
    m = re.findall(r"(\d+) states generated, (\d+) distinct states found", out)
    if m:
        res["states"], res["distinct"] = int(m[-1][0]), int(m[-1][1])
    res["ok"] = p.returncode == 0 and "Model checking completed. No error has been found." in out
    subprocess.run(["rm", "-rf", meta])
    return res


def flow_schedules(na, nb, nd, wd):
    """all interleavings, enumerated by TLC (spec/FlowSched.tla); returns (list of strings over A,B,D, stats)"""
    cfg = os.path.join(wd, "FlowSched-%d-%d-%d.cfg" % (na, nb, nd))
    with open(cfg, "w") as f:
        f.write("SPECIFICATION Spec\nCONSTANTS NA = %d\n NB = %d\n ND = %d\nINVARIANTS Emit Wellformed\nCHECK_DEADLOCK FALSE\n" % (na, nb, nd))
    res = run_tlc("FlowSched", cfg, wd, workers=1, timeout=300, deque=False)
    if not res["ok"]:
        raise ToolError("FlowSched failed:\n" + res["out"][-2000:])
    scheds = []
    for line in tlc_prints(res["out"], "SCHED"):
        scheds.append("".join(re.findall(r'"([ABD])"', line.split(",", 1)[1])))
    return scheds, res


def tlc_prints(out, tag):
    """extract TLC PrintT lines of the form <<"TAG", ...>> -> list of raw strings"""
    return [l for l in out.splitlines() if l.startswith('<<"%s"' % tag)]


# --------------------------------------------------------------------------- interning
class Interner:
    """maps canonical JSON values to small integers (>= 1); 0 is reserved for 'absent'"""

    def __init__(self):
        self.ids = {}
        self.vals = []

    def __call__(self, v):
        k = json.dumps(v, sort_keys=True, ensure_ascii=True)
        i = self.ids.get(k)
        if i is None:
            self.vals.append(v)
            i = len(self.vals)
            self.ids[k] = i
        return i

    def value(self, i):
        return self.vals[i - 1] if i > 0 else None


OBS_KEYS = ["can", "text", "tags", "choices", "errors", "warnings", "path", "vars", "visits", "save"]


def project_obs(obs, intern, mask=None, keys=OBS_KEYS):
    """observation -> record of interned component ids.  mask: function(component, value)->value"""
    out = {}
    for k in keys:
        v = obs.get(k, None) if obs else None
        if mask:
            v = mask(k, v)
        out[k] = intern(v) if v is not None else 0
    return out


def sha(obj):
    return hashlib.sha256(json.dumps(obj, sort_keys=True).encode()).hexdigest()[:12]


# --------------------------------------------------------------------------- evidence / replay
def write_replay(prop, payload):
    d = os.path.join(VERIF, "replays")
    os.makedirs(d, exist_ok=True)
    path = os.path.join(d, "%s-%s.json" % (prop, sha(payload)))
    with open(path, "w") as f:
        json.dump(payload, f, indent=1, sort_keys=True)
    return path


def write_evidence(prop, tier, seed, level, coverage, wall, violations, assumptions=None):
    d = os.path.join(VERIF, "evidence")
    os.makedirs(d, exist_ok=True)
    ev = dict(property_id=prop, tier=tier, seed=seed, level=level, coverage=coverage,
              wall_s=round(wall, 2), violations=violations, assumptions=assumptions or [])
    with open(os.path.join(d, "%s.json" % prop), "w") as f:
        json.dump(ev, f, indent=1, sort_keys=True)


def known_findings():
    """KNOWN_FINDINGS.txt: lines 'known: property=<id> <fingerprint> <text>' / 'fixed: ...'"""
    path = os.path.join(VERIF, "KNOWN_FINDINGS.txt")
    out = []
    if os.path.exists(path):
        for line in open(path):
            line = line.strip()
            m = re.match(r"known:\s+property=(\S+)\s+(\S+)\s+(.*)", line)
            if m:
                out.append(dict(prop=m.group(1), fp=m.group(2), text=m.group(3)))
    return out


def corpus_pairs():
    """(ink path, reference json path) for every corpus source with a reference-compiled story"""
    out = []
    for root, _dirs, files in os.walk(CORPUS):
        for f in sorted(files):
            if f.endswith(".ink"):
                j = os.path.join(root, f + ".json")
                if os.path.exists(j):
                    out.append((os.path.join(root, f), j))
    return sorted(out)
