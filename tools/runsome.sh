#!/bin/bash
# usage: runsome.sh <tier> <check>...  - like runall.sh for the given checks
tier=$1; shift
cd "$(dirname "$0")/.."
for c in "$@"; do
  s=$(date +%s); out=$(./check $c --tier $tier 2>&1); rc=$?; e=$(date +%s)
  echo "$c rc=$rc $((e-s))s viol=$(echo "$out" | grep -c '^VIOLATION') known=$(echo "$out" | grep -c '^KNOWN')"
  echo "$out" | grep -E "^VIOLATION|TOOL ERROR|Traceback|fingerprints" | head -6
done
echo ALLDONE
