#!/bin/bash
# runs every check of the manifest in one tier, one line of summary per check (used for regression runs)
tier=${1:-quick}
cd "$(dirname "$0")/.."
for c in C01 C02 C03 C04 C05 C06 C07 C08 C09 C10 C11 C12 C13 C14 C15 C16 C17 C18 C19 C20; do
  s=$(date +%s); out=$(./check $c --tier $tier 2>&1); rc=$?; e=$(date +%s)
  echo "$c rc=$rc $((e-s))s viol=$(echo "$out" | grep -c '^VIOLATION') known=$(echo "$out" | grep -c '^KNOWN')"
  echo "$out" | grep -E "^VIOLATION|TOOL ERROR|Traceback|fingerprints" | head -6
done
echo ALLDONE
