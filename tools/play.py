"""debug helper: play an ink file along a choice path and print what the engine delivers
usage: play.py file.ink [choices...] [--json]"""
import json, os, subprocess, sys
args = [a for a in sys.argv[1:] if not a.startswith("--")]
path = [int(x) for x in args[1:]]
script = [{"op": "new"}, {"op": "turn"}]
for c in path:
    script += [{"op": "choose", "i": c}, {"op": "turn"}]
sc = {"case": "p", "echo_json": "--json" in sys.argv, "programs": [{"inkfile": os.path.abspath(args[0])}], "seed": 1, "fuel": 5000,
      "obs": {"save": False}, "script": script}
open("/tmp/play.in", "w").write(json.dumps(sc) + "\n")
subprocess.run(["/verif/harness/target/debug/inkdrive", "/tmp/play.in", "/tmp/play.out"])
for l in open("/tmp/play.out"):
    r = json.loads(l)
    if r.get("op") == "programs":
        p = r["programs"][0]
        if p.get("compile_error"):
            print("COMPILE ERROR", p["compile_error"])
        if "--json" in sys.argv:
            print(p.get("json"))
    elif r.get("op") in ("cont", "choose"):
        o = r.get("obs") or {}
        print("  ", r["op"], repr(r.get("val")), r.get("res"), (r.get("errmsg") or r.get("panic") or "")[-200:], o.get("tags"), [c["text"] for c in o.get("choices", [])], o.get("errors"))
