"""Generic driver for the relational checks (impl -> spec trace validation against InkHostAbs)."""
import concurrent.futures
import json
import time

import common
import lib
import relational


class CaseSpec:
    """one probed run: scenario for inkdrive + how to validate it"""

    def __init__(self, key, scenario, root, info, froot=None, nontrivial=None):
        self.key = key
        self.scenario = scenario
        self.root = root
        self.info = info
        self.froot = froot
        self.nontrivial = nontrivial   # function(records) -> bool


def chunked(seq, n):
    for i in range(0, len(seq), n):
        yield seq[i:i + n]


def run_chunk(args):
    """one chunk = some programs: explore, build reference system, probe, validate with TLC"""
    (prop, idx, progs, build, wd, ex_kw, case_kw, flavour) = args
    t0 = time.time()
    batch = relational.Batch("%s-%d" % (prop, idx))
    prelude = build.prelude if hasattr(build, "prelude") else None
    turns = getattr(build, "turns", False)
    exs, counts = common.explore(progs, wd, name="base%d" % idx, prelude=prelude, flavour=flavour, turns=turns, **ex_kw)
    cases = []
    cfg = build.cfg() if hasattr(build, "cfg") else {}
    dropped = 0
    for ex in exs:
        if ex.fault:
            dropped += 1
            continue
        try:
            pcfg = build.cfg_for(ex) if hasattr(build, "cfg_for") else cfg
            trails = common.add_explored_to_batch(batch, ex, pcfg)
        except (relational.Inconsistent, relational.BaseFault):
            dropped += 1
            continue
        for cs in build.cases(ex, trails, batch):
            cs.cfg = pcfg
            cases.append(cs)
    scs = []
    for n, cs in enumerate(cases):
        cs.scenario["case"] = n
        if ex_kw.get("obs") and "obs" not in cs.scenario:
            cs.scenario["obs"] = ex_kw["obs"]
        scs.append(cs.scenario)
    recs = lib.run_inkdrive(scs, wd, name="probe%d" % idx, flavour=getattr(build, "probe_flavour", flavour), timeout=1800)
    bc = lib.by_case(recs)
    nontrivial = set()
    samples = []
    for n, cs in enumerate(cases):
        rs = bc.get(json.dumps(n), [])
        caseno = batch.start_case(cs.key, cs.info, **case_kw)
        if turns:
            rs = relational.collapse_turns(rs)
        if any(r.get("op") == "abort" for r in rs):
            # the process died inside this case: an event no action matches
            rs = [r for r in rs if r.get("n", 0) > 0]
            rs.append(dict(n=len(rs) + 1, on=0, op="abort", opfull={"op": "abort", "cls": "bad"}, res="abort", cb=[]))
        batch.add_probe(caseno, rs, cs.cfg, cs.root, cs.froot)
        if cs.nontrivial and cs.nontrivial(rs):
            nontrivial.add(lib.sha([cs.scenario["programs"], cs.scenario["script"]]))
        if len(samples) < 2:
            samples.append(dict(program=cs.scenario["programs"][0], script=cs.scenario["script"][:12],
                                first_results=[r.get("res") for r in rs if r.get("n", 0) > 0][:12]))
    mism, stats = batch.run(wd)
    stats.update(counts)
    stats["dropped"] = dropped
    stats["cases"] = len(cases)
    stats["nontrivial"] = len(nontrivial)
    stats["samples"] = samples
    stats["wall_chunk"] = time.time() - t0
    # make mismatches picklable / self-contained
    for m in mism:
        m["explain"] = batch.explain(m)
        m["scenario"] = cases_by_key(cases, m["case"])
    return mism, stats


def cases_by_key(cases, key):
    for cs in cases:
        if cs.key == key:
            return cs.scenario
    return None


ACC = {}


def run_relational(prop, progs, build, tier, seed, level, rule, ex_kw, case_kw=None, chunk=12, jobs=6,
                   flavour="debug", assumptions=None, extra_cov=None, design_stats=None):
    """several calls for the same property within one process accumulate into one evidence file"""
    t0 = time.time()
    acc = ACC.setdefault(prop, dict(t0=t0, tot=None, samples=[], rules=[], nviol=0, tool=0, known=set()))
    wd = lib.workdir(prop)
    lib.build(flavour)
    args = [(prop, i, ch, build, wd, ex_kw, case_kw or {}, flavour) for i, ch in enumerate(chunked(progs, chunk))]
    allm = []
    tot = dict(states=0, distinct=0, events=0, nodes=0, cases=0, nontrivial=0, programs=0, compile_errors=0,
               faulted=0, aborted=0, dropped=0)
    samples = []
    with concurrent.futures.ThreadPoolExecutor(max_workers=jobs) as pool:
        for mism, stats in pool.map(run_chunk, args):
            allm += mism
            for k in tot:
                tot[k] += stats.get(k, 0)
            samples += stats["samples"]
    nviol, tool, seen_known = report_mismatches(prop, allm)
    part = dict(cases=tot["cases"], tool=tool, nviol=nviol)
    if acc["tot"] is None:
        acc["tot"] = dict(tot)
    else:
        for k in tot:
            acc["tot"][k] += tot[k]
    acc["samples"] += samples[:2]
    acc["rules"].append(rule)
    acc["nviol"] += nviol
    acc["tool"] += tool
    acc["known"] |= set(seen_known)
    tot, samples, rule = acc["tot"], acc["samples"], " || ".join(acc["rules"])
    tool_total, seen_known = acc["tool"], sorted(acc["known"])
    cov = dict(states=max(1, tot["distinct"]), transitions=max(1, tot["states"]),
               traces_validated_against_impl=tot["cases"], samples=samples[:4],
               evaluations=tot["cases"], distinct_nontrivial=tot["nontrivial"], rule=rule,
               programs=tot["programs"], programs_dropped=tot["dropped"] + tot["compile_errors"] + tot["aborted"],
               reference_positions=tot["nodes"], events=tot["events"], tool_level_mismatches=tool_total,
               known_findings_seen=seen_known, exhaustive=False)
    if design_stats:
        cov["states"] += design_stats.get("distinct", 0)
        cov["transitions"] += design_stats.get("states", 0)
        cov["design_level"] = design_stats
    if extra_cov:
        cov.update(extra_cov)
    lib.write_evidence(prop, tier, seed, level, cov, time.time() - acc["t0"], acc["nviol"], assumptions)
    lib.log("[%s] cases=%d (total %d) events=%d nodes=%d nontrivial=%d violations=%d tool=%d wall=%.1fs" % (
        prop, part["cases"], tot["cases"], tot["events"], tot["nodes"], tot["nontrivial"], nviol, tool, time.time() - t0))
    if part["cases"] == 0 or tool > max(3, part["cases"] // 5):
        raise lib.ToolError("%s: too many tool-level mismatches (%d of %d cases)" % (prop, tool, part["cases"]))
    return nviol


def report_mismatches(prop, allm):
    """prints VIOLATION / KNOWN-FINDING lines; returns (violations, tool-level mismatches, known fingerprints seen)"""
    known = {k["fp"]: k for k in lib.known_findings() if k["prop"] == prop}
    nviol = 0
    tool = 0
    seen_known = set()
    seen_fp = {}
    for m in allm:
        if m["rule"].startswith("Handoff."):
            # a fault outside this property's rule (e.g. a panic in an operation the rule says nothing about):
            # it belongs to the property named in the rule, whose own check looks for it
            lib.log("[%s] handed to %s: %s in %s" % (prop, m["rule"][8:], m["comp"], m["case"]))
            continue
        if m["rule"].startswith("Calib.") or m["rule"] in ("Uncovered", "UnknownClass"):
            tool += 1
            lib.log("[%s] tool-level mismatch %s %s in %s" % (prop, m["rule"], m["comp"], m["case"]))
            continue
        fp = common.fingerprint(m)
        if fp in known:
            if fp not in seen_known:
                seen_known.add(fp)
                print("KNOWN-FINDING: property=%s %s %s" % (prop, fp, known[fp]["text"]))
            continue
        seen_fp[fp] = seen_fp.get(fp, 0) + 1
        nviol += 1
        if seen_fp[fp] > 2:
            continue
        payload = dict(property=prop, fingerprint=fp, case=m["case"], info=m["info"], scenario=m["scenario"],
                       mismatch=m["explain"], failing_record=trim(m["record"]))
        path = lib.write_replay(prop, payload)
        print("VIOLATION property=%s replay=%s" % (prop, path))
        lib.log("   %s %s" % (fp, json.dumps(m["explain"])[:400]))
    if seen_fp:
        lib.log("[%s] violation fingerprints: %s" % (prop, json.dumps(seen_fp)))
        progs = {}
        for m in allm:
            if not (m["rule"].startswith("Calib.") or m["rule"].startswith("Handoff.") or m["rule"] in ("Uncovered", "UnknownClass")):
                k = str(m["case"]).split("|")[0]
                progs[k] = progs.get(k, 0) + 1
        lib.log("[%s] failing programs: %s" % (prop, json.dumps(progs)[:1500]))
    return nviol, tool, sorted(seen_known)


def trim(rec):
    if not rec:
        return rec
    r = dict(rec)
    if "obs" in r and r["obs"]:
        o = dict(r["obs"])
        o.pop("save", None)
        r["obs"] = o
    return r
