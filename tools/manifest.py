#!/usr/bin/env python3
"""writes /verif/MANIFEST.json from the table below (single source of truth for registered checks)"""
import json
import os

HERE = os.path.dirname(os.path.dirname(os.path.abspath(__file__)))

TV = "translation_validation"
MC = "model_checking"
FE = "fault_enumeration"
EX = "exploration"

CHECKS = {
    "C01": dict(level=MC, ref="5/C01",
                text="spec/InkSem.tla is a source-level operational semantics of core Ink without look-ahead, snapshot or "
                     "rewind (statements take effect once, in program order; the lines of a turn are read off the output stream "
                     "of spec/InkOutput.tla afterwards). Programs are generated as abstract syntax trees and rendered to Ink "
                     "source; compiler + runtime play every choice path to a depth; TLC (InkSemTrace) steps the semantics over "
                     "the same paths, one state per statement, and compares per turn lines + tags, choices (text, tags, order) "
                     "and end status, and at the end of the path the globals and knot visit counts. spec/InkLook.tla models the engine's "
                     "look-ahead loop (snapshot at a newline, rewind / keep); TLC checks every recorded cont against it (text, tags, "
                     "can-continue, choices, globals visible between lines, the structure of the save document) and, without running "
                     "code, that it delivers what InkSem prescribes. Random host histories (cont, choose, set_variable, path jumps) are "
                     "checked against the executable host model spec/InkHost.tla. spec/InkHostMC.tla: TLC explores EVERY history of "
                     "<= 4 (thorough: 5) public calls over small generated programs and checks the design-level invariants "
                     "(look-ahead is invisible incl. messages, flows independent, save/load identity, reset initial, refused no-op).",
                note="bounded by the generated programs and path depth; the fragment is the one InkSem gives a meaning to (incl. parameters, "
                     "divert-target values and parameters, ref parameters, CONST, switch blocks, inline choice diverts; lists, floats, "
                     "random sequences are decided by C03/C07)",
                technique="TLC evaluation of the TLA+ source semantics InkSem over generated ASTs, compared with recorded plays of compiler + runtime"),
    "C09": dict(level=MC, ref="5/C09",
                text="TLC validates every recorded host call of probed runs against the abstract protocol "
                     "specification InkHostAbs (rule Rejected: error result, no callbacks, observation including the "
                     "save document unchanged, all later operations as in the base run). "
                     "Bounded by the generated programs and histories. Additionally random histories with mostly invalid arguments are checked against the executable model spec/InkHost.tla: a refused call must return err and leave text, choices, globals, flows and the save document as the model has them.",
                note="base runs of the same build define the reference system; observation projection of the harness "
                     "(text, tags, choices, errors, warnings, path, globals, visit counts, key-sorted save document)",
                technique="TLA+ trace validation (InkHostTrace/InkHostAbs) of invalid-call injection + TLA+ executable host model (InkHost/InkHostOps) as absolute oracle"),
    "C02": dict(level=MC, ref="5/C02",
                text="TLC validates recorded runs against InkHostAbs rules SaveA/LoadA: a load into a freshly constructed "
                     "twin jumps to the saved position of the reference system built from base runs; every explored "
                     "continuation is then compared observation by observation, and the save document written after the "
                     "load must equal the loaded one. Bounded by generated and corpus programs, save points, continuations. Additionally the executable model spec/InkHost.tla (save = copy of the model state into a slot, load = putting it back) answers random host histories with saves and loads mid-turn from the syntax tree alone; TLC (InkHostOps) compares every call of the real engine with it, including the structure of the save document.",
                note="base runs of the same build; observation projection of the harness; twin built from the same document; the host-model "
                     "profiles save and saveflows (saves taken with flows waiting in the background, the flows looked at after the load)",
                technique="TLA+ trace validation (InkHostTrace/InkHostAbs) of save/load histories + TLA+ executable host model (InkHost/InkHostOps) as absolute oracle"),
    "C16": dict(level=MC, ref="5/C16",
                text="TLC validates recorded runs against InkHostAbs rule EvalA: a host evaluation of a pure function does "
                     "not move the abstract position; the observation (function's own visit/turn entries masked) is "
                     "unchanged, a repeated call returns the same value and text, later operations equal the base run. Additionally evaluate_function is checked against the executable model spec/InkHost.tla (a frame of its own kind on the current thread, output set aside and put back, text and value as results): random histories with evaluations between lines, at choices and at the end.",
                note="purity is a generator fact; the thread's previous-content pointer in the save document is masked; the host hands over integer and truth-value arguments (value and text compared type first against the model; float, string and list arguments are not handed over yet); design level: invariant EvalLeavesTheStoryAlone of InkHostMC (run by C01)",
                technique="TLA+ trace validation (InkHostTrace/InkHostAbs) of injected evaluate_function calls + TLA+ executable host model (InkHost/InkHostOps) as absolute oracle"),
    "C17": dict(level=MC, ref="5/C17",
                text="TLC validates recorded runs against InkHostAbs rule ResetA: after any explored history (cut mid-line, "
                     "unfinished async slice, flows, jumps, loads, host assignments, errors) reset_state returns to the home "
                     "position of the reference system; registrations stay, so callbacks after the reset equal the base "
                     "run's. Rule JumpReset: a path jump with call-stack reset keeps globals and counts and leaves one frame. Additionally random histories with reset_state and path jumps with call-stack reset are checked call by call against the executable model spec/InkHost.tla (reset = initial model state).",
                note="the harness re-applies the seed after reset (hook); base runs of the same build",
                technique="TLA+ trace validation (InkHostTrace/InkHostAbs) of history+reset+replay + TLA+ executable host model (InkHost/InkHostOps) as absolute oracle"),
    "C08": dict(level=MC, ref="5/C08",
                text="TLC validates recorded runs against InkHostAbs rules SliceF/FinishF: every cont of explored base "
                     "paths is replaced by time-limited continues under a virtual clock (pause after every step, random "
                     "budgets, one pause at each step position with the guarded calls issued in the gap); unfinished "
                     "slices do not move the abstract position, guarded calls are Rejected, the completing slice must "
                     "give the unsliced observation (incl. save document), result and concatenated callback log. Additionally histories in which continues are replaced by time-limited continues (step budgets) are checked against the executable model spec/InkHost.tla: an unfinished slice changes nothing a host may rely on, guarded calls in between are refused, the finishing slice (or a plain continue) is the continue of the model.",
                note="virtual clock hook (steps instead of milliseconds); base runs of the same build",
                technique="TLA+ trace validation (InkHostTrace/InkHostAbs) of pause schedules + TLA+ executable host model (InkHost/InkHostOps) as absolute oracle"),
    "C11": dict(level=MC, ref="5/C11",
                text="TLC evaluates the rules ContNotifyRule/SetVarNotifyRule (InkHostRules) on every recorded call: the set "
                     "of registered (observer, variable) pairs is tracked by the abstract state, globals are polled before "
                     "and after every call; exactly one notification per changed watched variable, carrying the final "
                     "value, after all external calls; none for unregistered pairs; one immediate notification per watcher "
                     "for a host assignment; registrations survive reset. Additionally histories with observers registered, re-registered and removed at random are checked against the executable model spec/InkHost.tla: the machine keeps the set of globals assigned a different value in the KEPT part of a continue (rewound look-ahead does not count); every watcher registration is told exactly once with the final value, host assignments tell at once, reset re-initialises and tells every watcher.",
                note="a continue returning Err is not required to notify; polling sees only committed values",
                technique="TLA+ trace validation (InkHostTrace + InkHostRules) with observers added/removed at random points + TLA+ executable host model (InkHost/InkHostOps) as absolute oracle"),
    "C10": dict(level=MC, ref="5/C10",
                text="TLC enumerates every interleaving of the flows' host operations (spec FlowSched); each schedule is "
                     "replayed on the real runtime (plain, with save + load into a fresh twin, with remove_flow) and "
                     "validated against InkHostAbs with one abstract position per flow: what the current flow shows equals "
                     "its solo base run, every flow's own globals and counts equal that flow's solo run. Additionally random histories with switch_flow / switch_to_default / remove_flow are checked call by call against the executable model spec/InkHost.tla (flows own call stack, output and choices; variables, counts and the turn index are shared).",
                note="flows generated disjoint (own knot, own variable), no turn-index reads; base runs of the same build",
                technique="TLC schedule enumeration (FlowSched) + TLA+ trace validation (InkHostTrace/InkHostAbs, per-flow positions) + TLA+ executable host model (InkHost/InkHostOps) as absolute oracle"),
    "C12": dict(level=MC, ref="5/C12",
                text="TLC validates bound runs against the fallback run of the same program (transcript equality checks argument "
                     "values, order and use of the result) and the rule ExtCountRule (InkHostRules): cumulative host calls of "
                     "an unsafe function equal the executed calls counted by the Ink fallback, never before the marker line "
                     "preceding the call site was delivered; a safe function at least as often; no host call of an unsafe "
                     "function from inside strings; late binding after a failed first continue. Additionally spec/InkLook.tla models the rule for functions that are not look-ahead safe (a pending snapshot makes the engine end the line before the call; the call is made by the next continue) and spec/InkHostOps.tla compares, for every continue of random histories, the calls the host received - function, argument values, order - with the model's.",
                note="host functions and fallbacks compute the same pure function; unsafe runs are compared turn by turn",
                technique="TLA+ trace validation (InkHostTrace + InkHostRules) of bound vs fallback runs + TLA+ executable host model (InkHost/InkLook) as absolute oracle"),
    "C13": dict(level=MC, ref="5/C13",
                text="TLC evaluates MsgRule and NoHandlerRule (InkHostRules) on every recorded call: with a handler, what it "
                     "receives in a continue equals, as a bag, the messages the no-handler base run raised in that continue "
                     "plus those raised earlier outside a continue (constructor warning), and the story shows the same lines; "
                     "without a handler an error makes that continue return Err, stays readable and stops the story, a "
                     "warning never causes Err and stays readable. Absolute oracle: the executable host model (InkSem/InkLook/InkHost) "
                     "raises the messages itself - undeclared temporary (warning), zero divisor and loose end (errors), an error in "
                     "look-ahead rewound - and answers every call of recorded histories with early, late or no handler, jumps, "
                     "save/load and resets after the fault (InkHostOps: handler deliveries, pending errors/warnings, result, can-continue).",
                note="message texts compared between runs of the same build only (relational part) and by class (absolute part); faults raised by generated constructs "
                     "(undeclared temp, divert through 0, stray tunnel return, exhausted content, old inkVersion)",
                technique="TLA+ trace validation (InkHostTrace + InkHostRules) of handler vs no-handler runs, and of host histories against the executable model InkHost (messages raised by the model)"),
    "C05": dict(level=TV, ref="5/C05",
                text="For each of the 121 corpus pairs the choice tree of the reference-compiled story is explored (exhaustively "
                     "to a depth/path bound; breadth-first bounded for The Intercept) and every maximal path is replayed on "
                     "the story produced by this compiler; TLC validates each replayed call against the reference system "
                     "(InkHostAbs rule Valid): result, lines, tags, choices, global values. Shuffle stories modulo the draw.",
                note="same runtime, same seed; nine stories and The Intercept disagree on the unchanged tree and are listed as "
                     "known findings by story",
                technique="TLA+ trace validation (InkHostTrace/InkHostAbs): reference-compiled story as base, Rust-compiled as subject"),
    "C03": dict(level=MC, ref="5/C03",
                text="Every explored path of every program is replayed by two interleaved instances in one process, in two "
                     "further processes and by the release build; TLC validates every replay against the reference system "
                     "built from the first run (InkHostAbs rule Valid: result and error text, text, tags, choices, globals, "
                     "visit counts, key-sorted save document, callbacks). Compiled output is hashed in five processes.",
                note="the story seed is fixed by the harness hook; hash seeds differ per process and per HashMap instance",
                technique="TLA+ trace validation (InkHostTrace/InkHostAbs) of repeated runs across processes and build profiles"),
    "C19": dict(level=MC, ref="5/C19",
                text="TLC evaluates the path algebra InkPath (PathOf, PathText, Resolve, ToRelative, ResolveFrom) on the content "
                     "audit of every object of every corpus story (both compilers) and of generated programs: reported path "
                     "text, exact resolution back to the object, text/equality/hash round trip, relative paths between nearby "
                     "and random pairs, and every position written into save documents along an explored path.",
                note="tree structure as reported by the audit hook; path text split into components by the converter",
                technique="TLA+ specification of the path algebra (InkPath) evaluated by TLC on the implementation's content audit"),
    "C14": dict(level=TV, ref="5/C14",
                text="Every document (corpus reference stories, this compiler's output for corpus sources and generated programs, "
                     "texts salted with tab, quote, backslash, control, non-ASCII and non-BMP characters) is loaded by the "
                     "default loader (base) and by the streaming loader and from three re-serialisations (escaped non-ASCII "
                     "with surrogate pairs, pretty-printed, floats in exponent form); TLC validates audit listing and every "
                     "explored path of each probed load against the reference system of the base (InkHostAbs rule Valid).",
                note="two builds of the harness (feature off / on); a defect common to both loaders is out of reach here",
                technique="TLA+ trace validation (InkHostTrace/InkHostAbs): default loader as base, streaming loader / re-serialised documents as subject"),
    "C04": dict(level=MC, ref="5/C04",
                text="(1) TLC enumerates arithmetic expression trees over the 32-bit boundary pool with their values under the "
                     "specification Int32/InkValue (wrap-around, truncating division, zero divisor = story error); each is "
                     "compiled and played by the debug and the release build and must give the specified value / a reported "
                     "error in both. (2) TLC validates random host-call histories on fault-prone generated programs and corpus "
                     "mutants: no call ends in a panic or abort, and after reset_state a complete base path plays as in the base "
                     "run (InkHostAbs rule ResetA).",
                note="Int32 laws are model-checked separately (Int32MC); histories are random, not exhaustive; a third family runs every binary "
                     "operator over every pair of operand kinds (values of each type, a void function result, a divert target, lists) in both builds",
                technique="TLC-enumerated expressions replayed on both build profiles + TLA+ trace validation of fault histories"),
    "C07": dict(level=MC, ref="5/C07",
                text="The native operators of Ink are transcribed into the TLA+ module InkValue (coercion ladder, wrap-around "
                     "ints, dyadic floats, strings as code points, list algebra over sets with origin tracking, admissible sets "
                     "for ties). TLC enumerates every unary and binary operator over every pair of leaves of the pools and a "
                     "slice of depth-2 trees; each tree is compiled and played, stored value and printed text are compared.",
                note="floats only where exactly representable; float remainder, POW beyond small integers, random functions: no claim; operator "
                     "precedence: unary operators under / over binary ones, and every tree also written without the parentheses that precedence "
                     "makes redundant (only operator pairs on which Ink's own table and the usual one agree)",
                technique="TLC enumeration of expression trees over spec InkValue, replayed through compiler + runtime"),
    "C15": dict(level=FE, ref="5/C15",
                text="A seeded mutation driver produces structural (delete / retype / duplicate / swap / renamed key / numeric "
                     "extreme / deep nesting) and textual (truncation, corrupted bytes, nesting bombs, stray tokens) mutants of "
                     "corpus story documents, fed to Story::new under both loaders, and of saves taken at explored points, fed "
                     "to load_state. TLC validates the recorded runs: every call ends in ok or err (rule Fault.panic; an "
                     "abnormal process exit matches no action) and after reset_state a complete base path plays as in the base "
                     "run (InkHostAbs rule ResetA).",
                note="the input space is explored by a mutation driver, not enumerated; TLA+ supplies the outcome rule and the "
                     "reset oracle",
                technique="mutation driver + TLA+ trace validation (InkHostTrace rules Fault.panic / ResetA)"),
    "C18": dict(level=EX, ref="5/C18",
                text="Generated and corpus programs are played along explored histories in repeated create-play-drop cycles "
                     "(plain, and with save / flow switch / load / reset inside) and with repeated reset / load on one instance; "
                     "the harness logs the live bytes of a counting allocator at every measuring point and TLC validates the log "
                     "against spec InkHeapTrace: after a warm-up repetition the level must not keep growing.",
                note="the heap is not observable through the Story API: the TLA+ share is the rule over the logged counter; "
                     "a single capacity step of a buffer is tolerated, sustained growth is not",
                technique="counting allocator in the harness + TLA+ rule over the logged counter (InkHeapTrace)"),
    "C06": dict(level=FE, ref="5/C06",
                text="A seeded mutation driver (line / character / token / byte mutations and splices of corpus sources and generated "
                     "programs, token soup, deep nesting, non-ASCII before expression tokens) feeds the compiler; every outcome and "
                     "every returned story is validated by TLC against spec InkPathAudit: outcome is a loadable story or an error "
                     "whose line exists in the input (a panic, abort or hang matches no outcome); every divert, tunnel, function "
                     "call, choice target, read-count and divert-target literal resolves exactly under InkPath!ResolveFrom over a "
                     "tree built from the JSON by an independent parser; each input is compiled in two processes and compared.",
                note="the input space is explored, not enumerated; the classes of input that disagreed on the unchanged tree have been repaired (KNOWN_FINDINGS.txt)",
                technique="mutation driver + TLA+ outcome rule and reference resolution (InkPathAudit/InkPath) over compiled output"),
    "C20": dict(level=MC, ref="5/C20",
                text="spec InkCli defines the sequence of output objects of a play session as a function of the library's transcript "
                     "(tree of turns) and the input script; the real binary is run with scripted stdin on programs with hostile "
                     "characters; TLC (InkCliTrace) compares the objects scanned from stdout by an independent strict JSON scanner "
                     "with the specified sequence (JSON mode, with and without -k) and emits the expected sequence for plain mode, "
                     "which is rendered and compared with stdout byte for byte. Compile mode: -o output equals the library's, "
                     "failing compiles exit non-zero with the library's message, file name and line.",
                note="the tool's story seed cannot be set: programs use no randomness; stderr of plain mode is not compared; knot names with "
                     "capitals, every program's first session starts with a divert to an existing knot",
                technique="TLA+ protocol specification (InkCli) + trace validation of the real binary's sessions (InkCliTrace)"),
}

NOT_YET = {}

ALL = ["C%02d" % i for i in range(1, 21)]


def main():
    checks = []
    for pid in ALL:
        c = CHECKS.get(pid)
        if not c:
            continue
        checks.append(dict(
            property_id=pid,
            quick_cmd="./check %s --tier quick" % pid,
            thorough_cmd="./check %s --tier thorough" % pid,
            evidence_file="/verif/evidence/%s.json" % pid,
            replay_cmd_template="./check replay {path}",
            engine="tla",
            level_claimed=dict(category=c["level"], text=c["text"], design_ref="DESIGN.md §" + c["ref"]),
            level_note=c["note"],
            technique=c["technique"]))
    na = [dict(property_id=p, reason=NOT_YET.get(p, "check not registered yet: machinery under construction (see DESIGN.md §8 build order)"))
          for p in ALL if p not in CHECKS]
    m = dict(
        version=1,
        setup_cmd="./check setup",
        hooks=dict(guard="cargo feature verif-hooks (crate bladeink)",
                   enable="the harness crate /verif/harness depends on /repo/runtime with features=[\"verif-hooks\"]",
                   baseline_off_cmd="cd /repo && cargo test --workspace --no-fail-fast --offline",
                   source_commits=["c266bd9", "verif-hooks: relative-path audit (2 follow-up commits)"], add_only=True),
        engines=[dict(name="tla", path="/verif/spec", serves_properties=sorted(CHECKS),
                      kind_free_text="TLA+ specifications checked with TLC: design-level model checking, trace "
                                     "validation of runs recorded by the Rust harness /verif/harness (inkdrive), "
                                     "replay of TLC-generated behaviours")],
        checks=checks,
        not_applicable=na,
        notes="see DESIGN.md; KNOWN_FINDINGS.txt lists genuine defects (fixed / known)")
    with open(os.path.join(HERE, "MANIFEST.json"), "w") as f:
        json.dump(m, f, indent=1)
    print("MANIFEST.json: %d checks, %d not applicable" % (len(checks), len(na)))


if __name__ == "__main__":
    main()
