#!/usr/bin/env python3
"""writes /verif/MANIFEST.json from the table below (single source of truth for registered checks)"""
import json
import os

HERE = os.path.dirname(os.path.dirname(os.path.abspath(__file__)))

TV = "translation_validation"
MC = "model_checking"
FE = "fault_enumeration"
EX = "exploration"

CHECKS = {
    "C09": dict(level=MC, ref="5/C09",
                text="TLC validates every recorded host call of probed runs against the abstract protocol "
                     "specification InkHostAbs (rule Rejected: error result, no callbacks, observation including the "
                     "save document unchanged, all later operations as in the base run); the mechanism model InkHost "
                     "is model-checked against the same rule. Bounded by the generated programs and histories.",
                note="base runs of the same build define the reference system; observation projection of the harness "
                     "(text, tags, choices, errors, warnings, path, globals, visit counts, key-sorted save document)",
                technique="TLA+ trace validation (InkHostTrace/InkHostAbs) of invalid-call injection + TLC model checking of InkHost"),
}

NOT_YET = {}

ALL = ["C%02d" % i for i in range(1, 21)]


def main():
    checks = []
    for pid in ALL:
        c = CHECKS.get(pid)
        if not c:
            continue
        checks.append(dict(
            property_id=pid,
            quick_cmd="./check %s --tier quick" % pid,
            thorough_cmd="./check %s --tier thorough" % pid,
            evidence_file="/verif/evidence/%s.json" % pid,
            replay_cmd_template="./check replay {path}",
            engine="tla",
            level_claimed=dict(category=c["level"], text=c["text"], design_ref="DESIGN.md §" + c["ref"]),
            level_note=c["note"],
            technique=c["technique"]))
    na = [dict(property_id=p, reason=NOT_YET.get(p, "check not registered yet: machinery under construction (see DESIGN.md §8 build order)"))
          for p in ALL if p not in CHECKS]
    m = dict(
        version=1,
        setup_cmd="./check setup",
        hooks=dict(guard="cargo feature verif-hooks (crate bladeink)",
                   enable="the harness crate /verif/harness depends on /repo/runtime with features=[\"verif-hooks\"]",
                   baseline_off_cmd="cd /repo && cargo test --workspace --no-fail-fast --offline",
                   source_commits=["c266bd9"], add_only=True),
        engines=[dict(name="tla", path="/verif/spec", serves_properties=sorted(CHECKS),
                      kind_free_text="TLA+ specifications checked with TLC: design-level model checking, trace "
                                     "validation of runs recorded by the Rust harness /verif/harness (inkdrive), "
                                     "replay of TLC-generated behaviours")],
        checks=checks,
        not_applicable=na,
        notes="see DESIGN.md; KNOWN_FINDINGS.txt lists genuine defects (fixed / known)")
    with open(os.path.join(HERE, "MANIFEST.json"), "w") as f:
        json.dump(m, f, indent=1)
    print("MANIFEST.json: %d checks, %d not applicable" % (len(checks), len(na)))


if __name__ == "__main__":
    main()
