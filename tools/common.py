"""Program sources, base-run exploration and shared scenario plumbing for the relational checks."""
import json
import os
import random

import gen_ink
import lib
import relational

TIERS = ("quick", "thorough")


def tier_seed():
    tier = os.environ.get("VERIF_TIER", "quick")
    seed = int(os.environ.get("VERIF_SEED", "1"))
    return tier, seed


def gen_programs(n, seed, **weights):
    out = []
    for i in range(n):
        g = gen_ink.gen(seed * 100003 + i, **weights)
        g["id"] = "gen-%d-%d" % (seed, i)
        out.append(g)
    return out


def corpus_programs(limit=None, only_json=True):
    out = []
    for ink, js in lib.corpus_pairs():
        name = os.path.relpath(ink, lib.CORPUS)
        out.append(dict(id="corpus:" + name, file=js, inkfile=ink))
    return out[:limit] if limit else out


def prog_spec(p, compiled=False):
    if "src_json" in p:
        return {"json": p["src_json"]}
    if "file" in p and not p.get("use_ink"):
        return {"file": p["file"]}
    if "src" in p:
        return {"ink": p["src"]}
    return {"inkfile": p["inkfile"]}


class Explored:
    """base runs of one program: every choice path to a depth, as op sequences with records"""

    def __init__(self, prog):
        self.prog = prog
        self.paths = {}      # tuple -> dict(ops=[op dicts], recs=[records], new=[records beyond the parent])
        self.header = None
        self.fault = None

    def ops(self, path):
        return self.paths[path]["ops"]


def random_walks(progs, wd, walks, seed, fuel, prelude, name, flavour):
    """deep choice paths found by random walks (one run each, the choice index taken modulo the number on offer)"""
    import random as _r
    scs = []
    for i, p in enumerate(progs):
        for w in range(walks["n"]):
            rnd = _r.Random("%s/%s/%d/%d" % (walks.get("seed", 0), p.get("id"), i, w))
            script = [{"op": "new"}] + list(prelude(p) if callable(prelude) else (prelude or [])) + [{"op": "turn"}]
            for _ in range(walks["depth"]):
                script += [{"op": "choose", "i": rnd.randrange(1 << 20), "mod": True}, {"op": "turn"}]
            scs.append({"case": [i, w], "programs": [prog_spec(p)], "seed": seed, "fuel": fuel,
                        "obs": {"save": False, "vars": False, "visits": False}, "script": script})
    recs = lib.run_inkdrive(scs, wd, name=name + "-walk", flavour=flavour, timeout=1800)
    out = {}
    offered = {}      # program -> path prefix (tuple) -> number of choices on offer there

    def collect(recs_):
        for key, rs in lib.by_case(recs_).items():
            i, w = json.loads(key)[:2]
            path, nch = [], None
            for r in rs:
                if r.get("op") == "cont" and r.get("res") == "ok":
                    nch = len((r.get("obs") or {}).get("choices") or [])
                if r.get("op") == "choose":
                    if r.get("res") != "ok" or "chosen" not in r:
                        break
                    if nch:
                        offered.setdefault(i, {})[tuple(path)] = nch
                    path.append(r["chosen"])
            if path:
                out.setdefault(i, [])
                if path not in out[i]:
                    out[i].append(path)
    collect(recs)
    # Novelty-guided rounds: a scene that lies twenty choices deep behind particular answers is not found by throwing dice
    # from the start.  Every further round starts from choice points already reached where an option has never been taken
    # (deepest first), takes it, and walks on at random.
    for rd in range(walks.get("rounds", 0)):
        scs = []
        for i, p in enumerate(progs):
            taken = {}
            for path in out.get(i, []):
                for k in range(len(path)):
                    taken.setdefault(tuple(path[:k]), set()).add(path[k])
            frontier = [(pre, j) for pre, n in offered.get(i, {}).items() for j in range(n) if j not in taken.get(pre, set())]
            rnd = _r.Random("%s/%s/%d/round%d" % (walks.get("seed", 0), p.get("id"), i, rd))
            rnd.shuffle(frontier)
            frontier.sort(key=lambda f: -len(f[0]))
            half = walks["n"] // 2
            picks = frontier[:half] + rnd.sample(frontier[half:], min(len(frontier[half:]), walks["n"] - half))
            for w, (pre, j) in enumerate(picks):
                script = [{"op": "new"}] + list(prelude(p) if callable(prelude) else (prelude or [])) + [{"op": "turn"}]
                for c in list(pre) + [j]:
                    script += [{"op": "choose", "i": c, "mod": True}, {"op": "turn"}]
                for _ in range(max(0, walks["depth"] - len(pre) - 1)):
                    script += [{"op": "choose", "i": rnd.randrange(1 << 20), "mod": True}, {"op": "turn"}]
                scs.append({"case": [i, w, rd], "programs": [prog_spec(p)], "seed": seed, "fuel": fuel,
                            "obs": {"save": False, "vars": False, "visits": False}, "script": script})
        if not scs:
            break
        collect(lib.run_inkdrive(scs, wd, name="%s-walk%d" % (name, rd + 1), flavour=flavour, timeout=1800))
    return out


def explore(progs, wd, depth=4, max_paths=40, seed=7, fuel=20000, prelude=None, obs=None, name="base",
            flavour="debug", turns=False, walks=None):
    """runs the explore mode of inkdrive; returns list of Explored (one per usable program) and counts.
    walks=dict(n, depth, seed): additionally n random deep paths per program"""
    scs = []
    extra = random_walks(progs, wd, walks, seed, fuel, prelude, name, flavour) if walks else {}
    for i, p in enumerate(progs):
        sc = {"case": i, "programs": [prog_spec(p)], "seed": seed, "fuel": fuel,
              "explore": {"depth": depth, "max_paths": max_paths, "prelude": prelude(p) if callable(prelude) else (prelude or []),
                          "extra_paths": extra.get(i, [])}}
        if obs:
            sc["obs"] = obs
        scs.append(sc)
    recs = lib.run_inkdrive(scs, wd, name=name, flavour=flavour, timeout=1800)
    bc = lib.by_case(recs)
    out = []
    counts = dict(programs=len(progs), compile_errors=0, faulted=0, aborted=0)
    for i, p in enumerate(progs):
        rs = bc.get(json.dumps(i), [])
        ex = Explored(p)
        hdr = [r for r in rs if r.get("op") == "programs"]
        if not hdr or any(r.get("op") == "abort" for r in rs):
            counts["aborted"] += 1
            continue
        ex.header = hdr[0]["programs"][0]
        if ex.header.get("compile_error"):
            counts["compile_errors"] += 1
            continue
        cur = {}
        walk_recs = {}
        for r in rs:
            if r.get("n", 0) > 0:
                if isinstance(r["path"], dict):
                    walk_recs.setdefault(tuple(r["path"]["walk"]), []).append(r)
                else:
                    cur.setdefault(tuple(r["path"]), []).append(r)
        for full, wrecs in walk_recs.items():
            # a deep path is emitted whole: its records are filed under the prefix they extend (as the breadth-first
            # exploration files them: the choice and the turn after it belong to the path that ends with that choice)
            nch, split = 0, {}
            for r in wrecs:
                if r.get("op") == "choose":
                    nch += 1
                split.setdefault(tuple(full[:nch]), []).append(r)
            for pref, rr in split.items():
                if pref not in cur:
                    for r in rr:
                        r["path"] = list(pref)
                    cur[pref] = rr
        bad = False
        for path in sorted(cur, key=lambda t: (len(t), t)):
            new = relational.collapse_turns(cur[path]) if turns else cur[path]
            if any(r.get("res") in ("panic", "skipped") or "obs_panic" in r for r in new):
                bad = True
            if len(cur[path]) > 450:
                bad = True   # a turn that never ends
            if any("VERIF-FUEL" in e for r in new for e in ((r.get("obs") or {}).get("errors") or [])):
                bad = True   # a runaway story: step counts, not behaviour, would be compared
            parent = ex.paths.get(path[:-1]) if path else None
            if path and parent is None:
                continue
            ops = (list(parent["ops"]) if parent else []) + [strip_op(r["opfull"]) for r in new]
            allrecs = (list(parent["recs"]) if parent else []) + new
            ex.paths[path] = dict(ops=ops, recs=allrecs, new=new)
        if bad:
            ex.fault = "panic"
            counts["faulted"] += 1
        out.append(ex)
    return out, counts


def strip_op(op):
    return {k: v for k, v in op.items() if k != "macro"}


def add_explored_to_batch(batch, ex, cfg):
    """adds every explored path of a program to the reference system; returns {path: [node per op]}"""
    batch.reset_roots()
    trails = {}
    for path in sorted(ex.paths, key=lambda t: (len(t), t)):
        info = ex.paths[path]
        if path:
            ptrail = trails[path[:-1]]
            end, tr = batch.add_base(info["new"], cfg, start=ptrail[-1])
            trails[path] = ptrail + tr
        else:
            end, tr = batch.add_base(info["new"], cfg)
            trails[path] = tr
    return trails


def scenario(case, prog, script, seed=7, fuel=20000, obs=None, extra_programs=None):
    sc = {"case": case, "programs": [prog_spec(prog)] + (extra_programs or []), "seed": seed, "fuel": fuel,
          "script": script}
    if obs:
        sc["obs"] = obs
    return sc


def fingerprint(m):
    """stable identification of a mismatch for the known-findings file"""
    rec = m.get("record") or {}
    op = (rec.get("opfull") or {}).get("op", "")
    if (m.get("info") or {}).get("fp"):
        # the finding is identified by its specific input (e.g. a corpus story), not by the kind of call
        # ... and by WHAT differs there (expected and actual value of the component), so that another difference in the
        # same story is a different finding
        fp = "%s/%s/%s" % (m["info"]["fp"], m["rule"], m.get("comp") or "-")
        ex = m.get("explain") or {}
        if "expected" in ex or "actual" in ex:
            rec_val = (m.get("record") or {}).get("val") if (m.get("comp") in ("can", "err")) else None
            fp += "/" + lib.sha([ex.get("expected"), ex.get("actual"), rec_val])[:8]
        return fp.replace(" ", "_")
    fp = "%s/%s" % (m["rule"], op)
    pan = rec.get("panic")
    if pan:
        loc = pan.split("@")[-1].strip().replace("/repo/", "")
        fp += "@" + loc
    return fp.replace(" ", "_")


def report(prop, batch, mismatches, make_replay):
    """prints VIOLATION / KNOWN-FINDING lines; returns number of violations.
    Calibration / uncovered mismatches are tool-level: raised as ToolError."""
    known = {k["fp"]: k for k in lib.known_findings() if k["prop"] == prop}
    seen_known = set()
    nviol = 0
    tool = []
    seen_fp = {}
    for m in mismatches:
        if m["rule"].startswith("Calib.") or m["rule"] in ("Uncovered", "UnknownClass"):
            tool.append(m)
            continue
        fp = fingerprint(m)
        if fp in known:
            if fp not in seen_known:
                seen_known.add(fp)
                print("KNOWN-FINDING: property=%s %s %s" % (prop, fp, known[fp]["text"]))
            continue
        seen_fp[fp] = seen_fp.get(fp, 0) + 1
        if seen_fp[fp] > 3:
            nviol += 1
            continue
        payload = make_replay(m)
        payload["fingerprint"] = fp
        payload["mismatch"] = batch.explain(m)
        path = lib.write_replay(prop, payload)
        print("VIOLATION property=%s replay=%s" % (prop, path))
        lib.log("   %s  %s" % (fp, json.dumps(batch.explain(m))[:300]))
        nviol += 1
    return nviol, tool, sorted(seen_known)


def stack_shape(rec):
    """(threads, max frames, pending choices while the story can continue, choiceThreads present) from a record's save"""
    obs = rec.get("obs") or {}
    sv = obs.get("save") or {}
    try:
        fl = sv["flows"][sv["currentFlowName"]]
        th = fl["callstack"]["threads"]
        return (len(th), max(len(t["callstack"]) for t in th),
                len(fl.get("currentChoices", [])) if obs.get("can") else 0, 1 if fl.get("choiceThreads") else 0)
    except (KeyError, TypeError, ValueError):
        return (0, 0, 0, 0)


def deep_positions(recs, lo=0):
    """indices i >= lo such that after recs[i] the story is inside a thread, tunnel or function, or has choices
    pending mid-turn: the places where call-stack handling matters"""
    out = []
    for i, r in enumerate(recs):
        if i < lo:
            continue
        t, f, c, ct = stack_shape(r)
        if t > 1 or f > 1 or c > 0 or ct:
            out.append(i)
    return out
