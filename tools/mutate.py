"""structural and byte-level mutations of JSON documents (C15) and of Ink sources (C06)"""
import json
import random

EXTREMES = [2147483648, -2147483649, 4294967296, 1e400, -0.0, 1e-400, 9007199254740993, -1, 0, 2147483647,
            18446744073709551616, 0.5, "NaN"]


def paths(doc, prefix=()):
    """all paths into a JSON value"""
    out = [prefix]
    if isinstance(doc, list):
        for i, v in enumerate(doc):
            out += paths(v, prefix + (i,))
    elif isinstance(doc, dict):
        for k, v in doc.items():
            out += paths(v, prefix + (k,))
    return out


def get(doc, p):
    for k in p:
        doc = doc[k]
    return doc


def set_(doc, p, v):
    for k in p[:-1]:
        doc = doc[k]
    doc[p[-1]] = v


def delete(doc, p):
    for k in p[:-1]:
        doc = doc[k]
    del doc[p[-1]]


def structural(doc, rnd):
    """one structural mutation; returns (kind, text)"""
    d = json.loads(json.dumps(doc))
    ps = [p for p in paths(d) if p]
    if not ps:
        return "noop", json.dumps(d)
    p = rnd.choice(ps)
    kind = rnd.choice(["delete", "retype", "duplicate", "swap", "extreme", "key", "empty", "deep"])
    try:
        if kind == "delete":
            delete(d, p)
        elif kind == "retype":
            v = get(d, p)
            # (long values with non-ASCII text at every byte alignment: what an error message quotes of a wrong-typed
            # value must be cut at a character boundary)
            wide = rnd.choice(["\u00e9", "\u65e5", "\U0001d11e", "\u043a"])
            pad = "a" * rnd.randrange(4)
            repl = rnd.choice([None, 0, "x", [], {}, True, [v], {"k": v}, str(v)[:20], 1.5, -1,
                               pad + wide * 45, [pad + wide * 40], {pad + wide * 30: wide * 30}])
            set_(d, p, repl)
        elif kind == "duplicate":
            parent = get(d, p[:-1])
            if isinstance(parent, list):
                parent.insert(p[-1], json.loads(json.dumps(parent[p[-1]])))
            else:
                parent[str(p[-1]) + "_dup"] = json.loads(json.dumps(parent[p[-1]]))
        elif kind == "swap":
            q = rnd.choice(ps)
            a, b = json.loads(json.dumps(get(d, p))), json.loads(json.dumps(get(d, q)))
            set_(d, p, b)
            set_(d, q, a)
        elif kind == "extreme":
            nums = [q for q in ps if isinstance(get(d, q), (int, float)) and not isinstance(get(d, q), bool)]
            if nums:
                set_(d, rnd.choice(nums), rnd.choice(EXTREMES))
            else:
                set_(d, p, rnd.choice(EXTREMES))
        elif kind == "key":
            parent = get(d, p[:-1])
            if isinstance(parent, dict):
                parent[rnd.choice(["", "#f", "#n", "->", "^->", "VAR=", "*", "list", "origins", "x" * 50])] = parent.pop(p[-1])
            else:
                delete(d, p)
        elif kind == "empty":
            set_(d, p, rnd.choice([[], {}, "", None]))
        elif kind == "deep":
            set_(d, p, "@@DEEP@@")
    except (KeyError, IndexError, TypeError):
        pass
    try:
        text = json.dumps(d)
    except (TypeError, ValueError):
        text = "null"
    text = text.replace('"NaN"', "NaN").replace("Infinity", "1e999")
    if "@@DEEP@@" in text:
        n = rnd.choice([200, 5000, 100000])
        if rnd.random() < 0.5:
            text = text.replace('"@@DEEP@@"', "[" * n + "]" * n, 1)
        else:
            text = text.replace('"@@DEEP@@"', '{"a":' * n + "1" + "}" * n, 1)     # objects nest, too
    return kind, text


def textual(text, rnd):
    kind = rnd.choice(["truncate", "truncate", "bytes", "bomb", "dropchar", "insert", "empty"])
    if kind == "truncate":
        return kind, text[: rnd.randrange(0, max(1, len(text)))]
    if kind == "bytes":
        b = bytearray(text.encode("utf-8"))
        for _ in range(rnd.randint(1, 6)):
            if b:
                b[rnd.randrange(len(b))] = rnd.randrange(256)
        return kind, b.decode("utf-8", errors="replace")
    if kind == "bomb":
        n = rnd.choice([1000, 20000, 100000])
        opener = rnd.choice(["[", '{"a":'])
        return kind, opener * n + ("]" * n if opener == "[" and rnd.random() < 0.5 else "")
    if kind == "dropchar":
        i = rnd.randrange(max(1, len(text)))
        return kind, text[:i] + text[i + 1:]
    if kind == "insert":
        i = rnd.randrange(max(1, len(text)))
        return kind, text[:i] + rnd.choice(["\\", "\"", "{", "]", ",", "\u0000", "\\u12", "1e", "nul", "tru"]) + text[i:]
    return kind, rnd.choice(["", " ", "null", "[]", "{}", "0", "\"x\"", "{\"inkVersion\":21}", "{\"root\":[]}",
                             "{\"inkVersion\":21,\"root\":[],\"listDefs\":{}}", "{\"inkVersion\":\"x\",\"root\":[null],\"listDefs\":{}}"])


def mutate_json(doc, text, rnd):
    if rnd.random() < 0.65:
        return structural(doc, rnd)
    return textual(text, rnd)
