"""spec -> impl for expressions (C07, arithmetic half of C04): TLC enumerates expression trees with their
values under spec/InkValue.tla (spec/InkExprGen.tla); this module renders them into Ink stories, plays
them on the real compiler + runtime and compares stored value and printed text."""
import json
import os
import re

import lib

DEFS = {"L0": {"ap": 2, "aq": 4}, "L1": {"bp": 2, "bq": 4, "br": 6}, "L2": {"cp": 3}}

PRELUDE = """LIST L0 = ap = 2, aq = 4
LIST L1 = bp = 2, bq = 4, br = 6
LIST L2 = cp = 3
VAR i0 = 0
VAR i1 = 1
VAR i2 = 2
VAR i3 = -1
VAR i4 = -3
VAR i5 = 7
VAR i6 = 46341
VAR i7 = 2147483647
VAR i8 = -2147483647
VAR i9 = 2147483646
VAR i10 = -2147483647
VAR i11 = 65536
VAR bt = true
VAR bf = false
VAR f0 = 0.0
VAR f1 = 0.5
VAR f2 = -1.5
VAR f3 = 2.0
VAR f4 = 2.25
VAR s0 = ""
VAR s1 = "a"
VAR s2 = "ab"
VAR s3 = "b"
VAR s4 = "1"
VAR l0 = ()
VAR l1 = ()
VAR l2 = ()
VAR l3 = ()
VAR l4 = ()
VAR l5 = ()
VAR l6 = ()
VAR l7 = ()
VAR l8 = ()
"""

SETUP = """~ i8 = i8 - 1
~ l1 = (ap)
~ l2 = (ap, aq)
~ l3 = (bp)
~ l4 = (ap, bp)
~ l5 = (aq, br)
~ l6 = (ap)
~ l6 = l6 - ap
~ l7 = (bp, bq, br)
~ l8 = (cp)
"""

FUNCS = {"MIN", "MAX", "POW"}
UFUNCS = {"FLOOR", "CEILING", "INT", "FLOAT", "LIST_COUNT", "LIST_VALUE", "LIST_MIN", "LIST_MAX", "LIST_ALL", "LIST_INVERT"}
LEVEL = {"&&": 1, "||": 1, "==": 2, "!=": 2, "<": 2, ">": 2, "<=": 2, ">=": 2, "+": 4, "-": 4, "*": 6, "/": 6, "%": 6}
KEYWORD = {"&&": "and", "||": "or", "?": "has", "!?": "hasnt", "%": "mod"}


def render(e, profile="paren", alt=False):
    """Ink text of an expression tree.  profile 'paren': fully parenthesised"""
    k = e["k"]
    if k == "v":
        return e["n"]
    if k == "u":
        a = render(e["a"], profile, alt)
        if e["op"] == "_":
            return "-(%s)" % a if e["a"]["k"] != "v" else "-%s" % a
        if e["op"] == "!":
            # (a bare name in parentheses would be read as a list literal; a compound operand is already parenthesised)
            # ... and `{!x}` would be a once-only alternative, so the keyword form is used throughout)
            return "not %s" % a
        return "%s(%s)" % (e["op"], a)
    a, b = render(e["a"], profile, alt), render(e["b"], profile, alt)
    op = e["op"]
    if op in FUNCS:
        return "%s(%s, %s)" % (op, a, b)
    if alt and op in KEYWORD:
        op = KEYWORD[op]
    if profile == "bare":
        # Parentheses only where the grouping is not the one that precedence gives - restricted to the pairs of operators
        # on which Ink's own table (every arithmetic operator a level of its own, && and || one level) and the usual one
        # agree: a tighter class inside a looser one (* / % inside + -, arithmetic inside comparisons, comparisons inside
        # && ||), and the same operator again on the left.  Everything else keeps its parentheses.
        def bare(child, left):
            if child["k"] != "b" or child["op"] in FUNCS:
                return True          # leaves, unary operators, function forms
            ci, co = LEVEL.get(child["op"]), LEVEL.get(e["op"])
            if ci is None or co is None:
                return False
            if ci > co:
                return True
            return left and child["op"] == e["op"]
        if bare(e["a"], True) and a.startswith("(") and a.endswith(")") and e["a"]["k"] == "b":
            a = a[1:-1]
        if bare(e["b"], False) and b.startswith("(") and b.endswith(")") and e["b"]["k"] == "b":
            b = b[1:-1]
    return "(%s %s %s)" % (a, op, b)


def tlc_exprs(wd, depth, pool, slice_=0, mod=1):
    cfg = os.path.join(wd, "InkExprGen-%d-%s-%d-%d.cfg" % (depth, pool, slice_, mod))
    with open(cfg, "w") as f:
        f.write('SPECIFICATION Spec\nCONSTANTS DEPTH = %d\n SLICE = %d\n MOD = %d\n POOL = "%s"\nINVARIANT Emit\nCHECK_DEADLOCK FALSE\n' % (
            depth, slice_, mod, pool))
    res = lib.run_tlc("InkExprGen", cfg, wd, workers=1, timeout=3000, deque=False, xmx="6g")
    if not res["ok"]:
        raise lib.ToolError("InkExprGen failed:\n" + "\n".join(res["out"].splitlines()[-25:]))
    out = []
    for line in lib.tlc_prints(res["out"], "EXPR"):
        m = re.match(r'<<"EXPR", "(.*)">>$', line)
        out.append(json.loads(json.loads('"' + m.group(1) + '"')))
    return out, res


# ---------------------------------------------------------------------------------------------- expected values
def dyadic_text(n, e):
    """exact decimal of n / 2^e, as Rust and C# print a float that is exactly representable"""
    if e == 0:
        return str(n)
    sign = "-" if n < 0 else ""
    n = abs(n)
    whole = n >> e
    frac = n - (whole << e)
    digits = ""
    for _ in range(e):
        frac *= 10
        digits += str(frac >> e)
        frac &= (1 << e) - 1
    return "%s%d.%s" % (sign, whole, digits.rstrip("0"))


def item_key(it):
    return (DEFS[it["o"]][it["n"]], it["o"], it["n"])


def expected_text(r):
    t = r["t"]
    if t == "int":
        return str(r["v"])
    if t == "bool":
        return "true" if r["v"] else "false"
    if t == "float":
        return dyadic_text(r["n"], r["e"])
    if t == "str":
        return "".join(chr(c) for c in r["v"])
    if t == "list":
        return ", ".join(it["n"] for it in sorted(r["items"], key=item_key))
    return None


def value_matches(r, actual):
    """actual: the val_json of get_variable"""
    if actual is None:
        return False
    t = r["t"]
    if t == "oneof":
        return any(value_matches(x, actual) for x in r["v"])
    if t == "int":
        return actual.get("t") == "int" and actual.get("v") == r["v"]
    if t == "bool":
        return actual.get("t") == "bool" and actual.get("v") == r["v"]
    if t == "float":
        if r["n"] == 0 and actual.get("t") == "float" and actual.get("s") in ("0", "-0"):
            return True      # the sign of a float zero is not part of the specification
        return actual.get("t") == "float" and actual.get("s") == dyadic_text(r["n"], r["e"])
    if t == "str":
        return actual.get("t") == "str" and actual.get("v") == "".join(chr(c) for c in r["v"])
    if t == "list":
        if actual.get("t") != "list":
            return False
        exp = sorted(["%s.%s" % (it["o"], it["n"]), DEFS[it["o"]][it["n"]]] for it in r["items"])
        if sorted(actual.get("items", [])) != exp:
            return False
        if not r["items"]:
            return sorted(actual.get("origins", [])) == sorted(r["onames"])
        return True
    return False


def classify(e):
    def ty(x):
        if x["k"] == "v":
            return {"i": "int", "b": "bool", "f": "float", "s": "str", "l": "list"}[x["n"][0]]
        return "expr"
    if e["k"] == "u":
        return "%s:%s" % (e["op"], ty(e["a"]))
    if e["k"] == "b":
        return "%s:%s:%s" % (e["op"], ty(e["a"]), ty(e["b"]))
    return "leaf"


# ---------------------------------------------------------------------------------------------- stories
def story(exprs, alt=False, profile="paren"):
    """one story evaluating the expressions in order: assignment then print, one line each"""
    lines = [PRELUDE]
    for k, _ in enumerate(exprs):
        lines.append("VAR r%d = 0" % k)
    lines.append("-> go\n== go ==\n" + SETUP.rstrip("\n"))
    for k, c in enumerate(exprs):
        src = render(c["e"], profile, alt)
        lines.append("~ r%d = %s" % (k, src))
        lines.append("P%d [{%s}]" % (k, src))
    lines.append("-> END")
    return "\n".join(lines) + "\n"


def run_cases(cases, wd, flavour="debug", batch=25, name="expr", alt=False, profile="paren"):
    """plays the cases; returns list of (case, outcome dict).  outcome.kind in ok | wrong_value | wrong_text |
    missing_error | unexpected_error | panic | compile_error | skipped"""
    safe = [c for c in cases if c["r"]["t"] in ("int", "bool", "float", "str", "list", "oneof")]
    single = [c for c in cases if c["r"]["t"] in ("error", "unspec")]
    results = []
    pending = [safe[i:i + batch] for i in range(0, len(safe), batch)] + [[c] for c in single]
    rnd = 0
    while pending and rnd < 60:
        rnd += 1
        scs = []
        for i, group in enumerate(pending):
            script = [{"op": "new"}, {"op": "turn"}]
            for k in range(len(group)):
                script.append({"op": "get_var", "name": "r%d" % k})
            scs.append({"case": i, "programs": [{"ink": story(group, alt, profile)}], "seed": 1, "fuel": 50000,
                        "obs": {"save": False, "vars": False, "visits": False}, "script": script})
        recs = lib.run_inkdrive(scs, wd, name="%s-%s-%d" % (name, flavour, rnd), flavour=flavour, timeout=3000)
        bc = lib.by_case(recs)
        nxt = []
        for i, group in enumerate(pending):
            rs = bc.get(json.dumps(i), [])
            hdr = [r for r in rs if r.get("op") == "programs"]
            cerr = hdr[0]["programs"][0].get("compile_error") if hdr else "no header"
            if cerr:
                if len(group) == 1:
                    results.append((group[0], dict(kind="compile_error", detail=cerr[:200])))
                else:
                    nxt += [[c] for c in group]
                continue
            lines = {}
            errors = []
            panic = None
            for r in rs:
                if r.get("res") == "panic" or r.get("op") == "abort":
                    panic = r.get("panic") or "abort"
                if r.get("op") == "cont":
                    m = re.match(r"^P(\d+) \[(.*)\]\n?$", r.get("val") or "", re.S)
                    if m:
                        lines[int(m.group(1))] = m.group(2)
                    if r.get("res") == "err":
                        errors.append(r.get("errmsg", ""))
                    errors += (r.get("obs") or {}).get("errors", [])
            vals = [r.get("val") for r in rs if r.get("op") == "get_var"]
            if panic and len(group) > 1:
                # the instance is poisoned: find the culprit (the first expression without a printed line), report
                # it, and play all the others again without it
                culprit = next((k for k in range(len(group)) if k not in lines), None)
                if culprit is not None:
                    results.append((group[culprit], dict(kind="panic", detail=panic)))
                    rest = [c for k, c in enumerate(group) if k != culprit]
                    half = max(1, len(rest) // 2)
                    nxt += [rest[:half], rest[half:]] if len(rest) > 1 else [rest]
                    nxt = [g for g in nxt if g]
                    continue
            stop = None     # index of the first expression that did not complete
            for k, c in enumerate(group):
                exp = c["r"]
                if k not in lines and (errors or panic):
                    stop = k
                    break
                actual = vals[k] if k < len(vals) else None
                if exp["t"] in ("error", "unspec"):
                    continue
                if not value_matches(exp, actual):
                    results.append((c, dict(kind="wrong_value", expected=exp, actual=actual, printed=lines.get(k))))
                elif exp["t"] != "oneof" and exp["t"] != "float" and expected_text(exp) != lines.get(k):
                    results.append((c, dict(kind="wrong_text", expected=expected_text(exp), printed=lines.get(k))))
                else:
                    results.append((c, dict(kind="ok")))
            if stop is None and len(group) == 1 and group[0]["r"]["t"] == "error":
                c = group[0]
                if panic:
                    results.append((c, dict(kind="panic", detail=panic)))
                elif errors:
                    results.append((c, dict(kind="ok")))
                else:
                    results.append((c, dict(kind="missing_error", actual=vals[0] if vals else None, printed=lines.get(0))))
            elif stop is None and len(group) == 1 and group[0]["r"]["t"] == "unspec":
                results.append((group[0], dict(kind="panic", detail=panic) if panic else dict(kind="skipped")))
            elif stop is not None:
                c = group[stop]
                if len(group) == 1 or stop == 0 and False:
                    pass
                if c["r"]["t"] == "error" and not panic:
                    results.append((c, dict(kind="ok")))
                elif c["r"]["t"] == "unspec" and not panic:
                    results.append((c, dict(kind="skipped")))
                elif panic:
                    results.append((c, dict(kind="panic", detail=panic)))
                else:
                    results.append((c, dict(kind="unexpected_error", detail=errors[:1], expected=c["r"])))
                rest = group[stop + 1:]
                if rest:
                    nxt.append(rest)
        pending = nxt
    return results
