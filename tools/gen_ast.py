"""Generator of Ink programs as abstract syntax trees (for spec/InkSem.tla) together with their Ink source text.

A program is produced twice from the same random decisions: as the JSON value of the constant Prog of InkSem
(bodies of statements, 1-based body numbers) and as source text for the real compiler.  The fragment is the one
InkSem gives a meaning to; `features` switches parts of it on and off so that a disagreement can be localised.
"""
import random

WORDS = ["ash", "bell", "cove", "dune", "elm", "fog", "gate", "hill", "ivy", "jet", "kite", "lamp", "moss", "nest",
         "oak", "pond", "quay", "reed", "silt", "tarn", "urn", "vale", "well", "yew"]

ALL_FEATURES = {"print", "glue", "tags", "icond", "iseq", "set", "temp", "block_if", "block_seq", "choices", "nested",
                "labels", "fallback", "conds", "sticky", "counts", "turns", "loops", "tunnels", "threads", "choice_print",
                "done", "functions", "choice_tags", "stitches", "typed_vars", "if_diverts", "cond_choices", "externals", "label_diverts"}


# a logic line (~) that calls a function ends the line of whatever the function printed
NL = {"k": "nl"}


def has_call(e):
    """does the expression contain something written as a call (TURNS_SINCE(..), CHOICE_COUNT(), TURNS())?  A logic
    line with a call in it ends in a newline, whatever the call is"""
    if not isinstance(e, dict):
        return False
    if e.get("k") in ("ts", "cc", "turns", "tsv", "cntv", "pcall"):
        return True
    return any(has_call(v) for v in e.values() if isinstance(v, dict))


def chars(s):
    return [ord(c) for c in s]


def I(n):
    return {"t": "int", "v": n}


class Gen:
    def __init__(self, seed, features=None, knots=3, size=1.0, focus=None):
        self.r = random.Random(seed)
        self.f = set(features if features is not None else ALL_FEATURES)
        self.bodies = []          # list of statement lists (index + 1 = body number)
        self.owner = []
        self.ochain = []          # per body: the knot (and stitch) it lies in
        self.stitched = {}        # knot -> [stitch names] for knots that consist of stitches
        self.nknots = knots
        self.size = size
        self.knots = {}
        self.kinds = {}
        self.globals = []
        self.labels = []          # (knot, label) of labelled gathers / choices already emitted
        self.uid = 0
        self.cur = ""
        self.temps = []
        self.depth = 0
        self.after_choice = False
        self.focus = focus        # "bursts" | "nested" | None: raises the odds of one sensitive pattern
        self.funcs = []           # functions that may be called from the code being generated: dict(name, params)
        self.externs = []         # external functions of the host: dict(name, params, coef, add, safe)
        self.in_choice_text = False
        self.quiet = set()        # tunnels that print nothing
        self.gather_labels = []   # labelled level-1 gathers: (full name, body of what follows the gather)
        self.label_bodies = {}
        self.kparams = {}         # knot / tunnel / thread name -> parameter names
        self.kdivparams = {}      # parameter that takes a divert target -> the knots it may be given
        self.pures = []           # pure functions (body: `~ return expr`) that may be called inside any expression
        self.consts = {}          # CONST name -> integer value
        self.dvars = {}           # global that holds a divert target -> the knots it may hold (all of one kind)

    # ------------------------------------------------------------------ helpers
    def has(self, f):
        return f in self.f

    def p(self, x):
        return self.r.random() < x

    def body(self, stmts=None):
        self.bodies.append(stmts if stmts is not None else [])
        self.owner.append(self.cur)
        parts = self.cur.split(".") if self.cur else []
        self.ochain.append([".".join(parts[:i + 1]) for i in range(len(parts))])
        return len(self.bodies)

    def fresh(self, pre):
        self.uid += 1
        return "%s%d" % (pre, self.uid)

    def words(self, lo=1, hi=3):
        return " ".join(self.r.choice(WORDS) for _ in range(self.r.randint(lo, hi)))

    # ------------------------------------------------------------------ expressions
    def int_vars(self):
        return [g["n"] for g in self.globals if g["v"]["t"] == "int"] + list(self.temps)

    def str_expr(self):
        """a string valued expression: literal, variable or a concatenation"""
        r = self.r
        svars = [g["n"] for g in self.globals if g["v"]["t"] == "str"]
        def atom():
            if svars and self.p(0.6):
                v = r.choice(svars)
                return {"k": "var", "n": v}, v
            w = r.choice(WORDS)
            return {"k": "lit", "v": {"t": "str", "v": chars(w)}}, '"%s"' % w
        a, ta = atom()
        if self.p(0.35):
            b, tb = atom()
            return {"k": "b", "op": "+", "a": a, "b": b}, "(%s + %s)" % (ta, tb)
        return a, ta

    def expr(self, depth=0, boolean=False):
        """returns (ast, text); int valued unless boolean"""
        r = self.r
        if boolean:
            k = r.random()
            bvars = [g["n"] for g in self.globals if g["v"]["t"] == "bool"]
            svars = [g["n"] for g in self.globals if g["v"]["t"] == "str"]
            if bvars and k < 0.15:
                v = r.choice(bvars)
                return {"k": "var", "n": v}, v
            if svars and k < 0.25:
                a, ta = self.str_expr()
                b, tb = self.str_expr()
                op = r.choice(["==", "!=", "?", "!?"] if self.has("sugar") else ["==", "!="])       # (? : contains)
                return {"k": "b", "op": op, "a": a, "b": b}, "(%s %s %s)" % (ta, op, tb)
            if k < 0.65 or depth >= 2:
                a, ta = self.expr(depth + 1)
                b, tb = self.expr(depth + 1)
                op = r.choice(["==", "!=", "<", ">", "<=", ">="])
                return {"k": "b", "op": op, "a": a, "b": b}, "(%s %s %s)" % (ta, op, tb)
            if k < 0.8:
                a, ta = self.expr(depth + 1, True)
                return {"k": "u", "op": "!", "a": a}, "(not %s)" % ta
            a, ta = self.expr(depth + 1, True)
            b, tb = self.expr(depth + 1, True)
            op = r.choice(["&&", "||"])
            return {"k": "b", "op": op, "a": a, "b": b}, "(%s %s %s)" % (ta, op, tb)
        k = r.random()
        if self.pures and getattr(self, "pcall_ok", False) and depth < 2 and self.p(0.12):
            # a call of a pure function inside the expression
            f = r.choice(self.pures)
            args, texts = [], []
            for _ in f["params"]:
                a, ta = self.expr(depth + 1)
                args.append(a)
                texts.append(ta)
            return {"k": "pcall", "f": f["name"], "args": args}, "%s(%s)" % (f["name"], ", ".join(texts))
        if depth >= 2 or k < 0.3:
            if self.consts and self.p(0.25):
                c = r.choice(sorted(self.consts))        # a named constant is its value
                return {"k": "lit", "v": I(self.consts[c])}, c
            n = r.randint(0, 4)
            return {"k": "lit", "v": I(n)}, str(n)
        if k < 0.55 and self.int_vars():
            v = r.choice(self.int_vars())
            return {"k": "var", "n": v}, v
        if k < 0.7 and self.has("counts"):
            targets = list(self.knot_names()) + [x for v in self.stitched.values() for x in v]
            if self.has("labels"):
                targets += ["%s.%s" % kl for kl in self.labels]
            t = r.choice(targets)
            return {"k": "cnt", "n": t}, t
        if k < 0.76 and self.has("turns"):
            t = r.choice(list(self.knot_names()) + [x for v in self.stitched.values() for x in v])
            return {"k": "ts", "n": t}, "TURNS_SINCE(-> %s)" % t
        if k < 0.8 and self.has("turns"):
            return {"k": "turns"}, "TURNS()"
        if k < 0.83 and self.dvars and self.has("counts"):
            d = r.choice(sorted(self.dvars))
            if self.p(0.5):
                return {"k": "cntv", "n": d}, "READ_COUNT(%s)" % d
            return {"k": "tsv", "n": d}, "TURNS_SINCE(%s)" % d
        if k < 0.84 and self.has("choices"):
            return {"k": "cc"}, "CHOICE_COUNT()"
        a, ta = self.expr(depth + 1)
        op = r.choice(["+", "-", "*", "+", "-", "%", "/"])
        if op in ("%", "/") and self.has("faults") and getattr(self, "div_ok", False) and self.int_vars() and self.p(0.6):
            # a divisor that may be zero when the statement is executed: a runtime error
            v = r.choice(self.int_vars())
            b, tb = {"k": "var", "n": v}, v
        elif op in ("%", "/"):
            n = r.randint(1, 3)
            b, tb = {"k": "lit", "v": I(n)}, str(n)
        else:
            b, tb = self.expr(depth + 1)
        return {"k": "b", "op": op, "a": a, "b": b}, "(%s %s %s)" % (ta, op, tb)

    def knot_names(self):
        return ["k%d" % i for i in range(self.nknots)]

    def callables(self):
        return (self.funcs if self.has("functions") else []) + (self.externs if self.has("externals") else [])

    def call(self):
        """(f, args ast, text) of a call of one of the callable functions"""
        f = self.r.choice(self.externs if self.focus == "externs" and self.externs and self.has("externals") and self.p(0.7)
                          else self.callables())
        args, texts = [], []
        gints = [g["n"] for g in self.globals if g["v"]["t"] == "int"]
        for p_ in f["params"]:
            if p_ in f.get("refs", ()) and gints:
                # a `ref` parameter is handed a variable (here: a global), not a value
                v = self.r.choice(gints)
                a, t = {"k": "refarg", "n": v}, v
            else:
                a, t = self.expr(1)
            args.append(a)
            texts.append(t)
        return f["name"], args, "%s(%s)" % (f["name"], ", ".join(texts))

    def call_stmt(self, mode, x=""):
        """a call statement; with some probability the call is the left operand of a larger expression"""
        f, args, text = self.call()
        st = {"k": "call", "f": f, "args": args, "mode": mode, "x": x, "e": {"k": "void"}}
        if mode in ("print", "set", "temp") and self.p(0.4):
            op = self.r.choice(["+", "-", "*"])
            b, tb = self.expr(1)
            st["mode"] = mode + "expr"
            if any(x["name"] == f for x in self.externs) and self.p(0.6):
                # an external function cannot touch the story's variables: it may stand to the right of any operand
                # (whose value then lies on the evaluation stack below the call's arguments)
                st["e"] = {"k": "b", "op": op, "a": b, "b": {"k": "var", "n": "$ret"}}
                text = "(%s %s %s)" % (tb, op, text)
            else:
                st["e"] = {"k": "b", "op": op, "a": {"k": "var", "n": "$ret"}, "b": b}
                text = "(%s %s %s)" % (text, op, tb)
        return st, text

    # ------------------------------------------------------------------ inline content
    def segments(self, allow_glue=True, allow_tags=True, rich=True, lo=1, hi=4):
        """a line's content: list of ("lit", text) / ("stmt", ast, text); never starts or ends with a space"""
        r = self.r
        segs = []
        n = r.randint(lo, hi)
        for i in range(n):
            if i:
                segs.append(("lit", " "))
            k = r.random()
            if not rich or k < 0.45 or (i == 0 and rich == "print"):
                segs.append(("lit", self.words(1, 2)))
            elif k < 0.52 and rich is True and self.callables():
                st, t = self.call_stmt("print")
                segs.append(("stmt", st, "{%s}" % t))
            elif (k < 0.65 or rich == "print") and self.has("print"):
                typed = [g["n"] for g in self.globals if g["v"]["t"] in ("str", "bool")]
                if typed and self.p(0.3):
                    v = r.choice(typed)
                    e, t = {"k": "var", "n": v}, v
                else:
                    self.div_ok = getattr(self, "in_line", False)
                    self.pcall_ok = getattr(self, "in_line", False)
                    e, t = self.expr()
                    self.div_ok = self.pcall_ok = False
                segs.append(("stmt", {"k": "p", "e": e}, "{%s}" % t))
            elif k < 0.8 and self.has("icond") and rich is True:
                c, tc = self.expr(boolean=True)
                a = self.words(1, 1)
                b = self.words(1, 1) if self.p(0.7) else ""
                br = [{"c": c, "b": self.body([{"k": "s", "v": chars(a)}])}]
                if b:
                    br.append({"c": {"k": "else"}, "b": self.body([{"k": "s", "v": chars(b)}])})
                segs.append(("stmt", {"k": "if", "br": br}, "{%s:%s%s}" % (tc, a, "|" + b if b else "")))
            elif k < 0.95 and self.has("iseq") and rich is True:
                mode, sym = r.choice([("stop", ""), ("cycle", "&"), ("once", "!")])
                alts = [self.words(1, 1) for _ in range(r.randint(2, 3))]
                if self.p(0.3):
                    alts[r.randrange(len(alts))] = ""
                if sym == "" and alts[0] == "":
                    alts[0] = self.words(1, 1)     # `{|a}` would not be read as a sequence
                bodies = [self.body([{"k": "s", "v": chars(a)}] if a else []) for a in alts]
                segs.append(("stmt", {"k": "seq", "mode": mode, "id": self.fresh("q"), "alts": bodies},
                             "{%s%s}" % (sym, "|".join(alts))))
            else:
                segs.append(("lit", self.words(1, 1)))
        if allow_glue and self.has("glue") and self.p(0.12):
            segs.append(("lit", " "))
            segs.append(("stmt", {"k": "g"}, "<>"))
        elif allow_glue and self.has("glue") and self.p(0.06):
            segs = [("stmt", {"k": "g"}, "<>"), ("lit", " ")] + segs
        if allow_tags and self.has("tags") and self.p(0.15):
            for j in range(r.randint(1, 2)):
                t = self.words(1, 2)
                if j == 0:
                    segs.append(("lit", " "))
                    segs.append(("stmt", {"k": "tag", "b": self.body([{"k": "s", "v": chars(t)}])}, "# " + t))
                else:
                    # (what stands between two tags belongs to the first of them)
                    segs.append(("stmt", {"k": "tag", "b": self.body([{"k": "s", "v": chars(t)}])}, " # " + t))
        return segs

    @staticmethod
    def lower(segs):
        """merge adjacent literals; returns (stmts, text)"""
        stmts, text = [], ""
        for s in segs:
            if s[0] == "lit":
                text += s[1]
                if stmts and stmts[-1]["k"] == "s" and stmts[-1].get("_m"):
                    stmts[-1]["v"] += chars(s[1])
                else:
                    stmts.append({"k": "s", "v": chars(s[1]), "_m": True})
            else:
                stmts.append(s[1])
                text += s[2]
        for s in stmts:
            s.pop("_m", None)
        return stmts, text

    # ------------------------------------------------------------------ statements
    def line(self, ind):
        if self.has("tags") and self.p(0.06):
            # a line that is nothing but a tag: it belongs to the next line of text
            t = self.words(1, 2)
            # (a line of tags only is not ended by a newline)
            return [{"k": "tag", "b": self.body([{"k": "s", "v": chars(t)}])}], [ind + "# " + t]
        self.in_line = True
        stmts, text = self.lower(self.segments())
        self.in_line = False
        return stmts + [{"k": "nl"}], [ind + text]

    def logic(self, ind):
        r = self.r
        ints = [g["n"] for g in self.globals if g["v"]["t"] == "int"]
        if self.callables() and self.p(0.6 if self.focus == "externs" else 0.35):
            k = r.random()
            if k < 0.3:
                st, t = self.call_stmt("drop")
                return [st, NL], ["%s~ %s" % (ind, t)]
            if k < 0.6 and self.has("temp"):
                name = self.fresh("t")
                st, t = self.call_stmt("temp", name)
                self.temps.append(name)
                return [st, NL], ["%s~ temp %s = %s" % (ind, name, t)]
            if ints:
                x = r.choice(ints)
                st, t = self.call_stmt("set", x)
                return [st, NL], ["%s~ %s = %s" % (ind, x, t)]
        if self.dvars and self.p(0.12):
            d = r.choice(sorted(self.dvars))
            v = r.choice(self.dvars[d])
            return [{"k": "set", "x": d, "e": {"k": "lit", "v": {"t": "div", "v": v}}}], ["%s~ %s = -> %s" % (ind, d, v)]
        typed = [g for g in self.globals if g["v"]["t"] in ("str", "bool")]
        if typed and self.p(0.25):
            g = r.choice(typed)
            e, t = self.str_expr() if g["v"]["t"] == "str" else self.expr(boolean=True)
            return [{"k": "set", "x": g["n"], "e": e}] + [NL] * has_call(e), ["%s~ %s = %s" % (ind, g["n"], t)]
        if self.has("temp") and self.p(0.3):
            self.div_ok = self.pcall_ok = True
            e, t = self.expr()
            self.div_ok = self.pcall_ok = False
            name = self.fresh("t")
            st = {"k": "temp", "x": name, "e": e}
            self.temps.append(name)
            return [st] + [NL] * has_call(e), ["%s~ temp %s = %s" % (ind, name, t)]
        x = r.choice(ints + list(self.temps)) if ints else None
        if x is None:
            return [], []
        if self.has("sugar") and self.p(0.35):
            # the short forms of an assignment: x++, x--, x += e, x -= e
            var = {"k": "var", "n": x}
            form = r.choice(["++", "--", "+=", "-="])
            if form in ("++", "--"):
                return [{"k": "set", "x": x, "e": {"k": "b", "op": form[0], "a": var, "b": {"k": "lit", "v": I(1)}}}], ["%s~ %s%s" % (ind, x, form)]
            e, t = self.expr(1)
            return [{"k": "set", "x": x, "e": {"k": "b", "op": form[0], "a": var, "b": e}}] + [NL] * has_call(e), \
                   ["%s~ %s %s %s" % (ind, x, form, t)]
        self.div_ok = self.pcall_ok = True
        e, t = self.expr()
        self.div_ok = self.pcall_ok = False
        return [{"k": "set", "x": x, "e": e}] + [NL] * has_call(e), ["%s~ %s = %s" % (ind, x, t)]

    def block_if(self, ind):
        n = self.r.randint(1, 3)
        br, lines = [], []
        # the switch form: `{ value:` with cases `- 1:` ... `- else:` - the value compared with each case in turn
        switch = None
        if self.has("switch") and self.p(0.3):
            sv, stv = self.expr(1)
            switch = (sv, stv, self.r.sample(range(0, 5), n))
        for i in range(n):
            last_else = i == n - 1 and n > 1 and self.p(0.6)
            saved = list(self.temps)
            stmts, ls = self.simple_block(ind + "    ", self.r.randint(1, 2))
            if self.has("if_diverts") and self.kinds.get(self.cur, "knot") in ("knot", "thread") and self.p(0.2):
                ds, dl = self.divert(ind + "    ")
                stmts += ds
                ls += dl
            self.temps = saved        # (a temp declared in a branch may not exist afterwards)
            stmts = [{"k": "nl"}] + stmts       # (a branch of a block starts on a new line)
            if last_else:
                br.append({"c": {"k": "else"}, "b": self.body(stmts)})
                lines.append("%s- else:" % ind)
            elif switch:
                c = {"k": "b", "op": "==", "a": switch[0], "b": {"k": "lit", "v": I(switch[2][i])}}
                br.append({"c": c, "b": self.body(stmts)})
                lines.append("%s- %d:" % (ind, switch[2][i]))
            else:
                self.pcall_ok = True
                c, tc = self.expr(boolean=True)
                self.pcall_ok = False
                br.append({"c": c, "b": self.body(stmts)})
                lines.append("%s- %s:" % (ind, tc))
            lines += ls
        # (the line of the closing brace ends in a newline like any other line; it only shows when the block's last
        # output was a tag)
        return [{"k": "if", "br": br}, {"k": "nl"}], ["%s{%s" % (ind, " %s:" % switch[1] if switch else "")] + lines + ["%s}" % ind]

    def cond_choice(self, ind):
        """a choice inside a conditional block: it is generated, the flow goes on after the block and the choice stays
        pending while further lines (threads, tunnels) are printed; its body ends in a divert (there is no gather)"""
        c, tc = ({"k": "lit", "v": {"t": "bool", "v": True}}, "true") if self.p(0.6) else self.expr(boolean=True)
        o, to = self.lower(self.segments(False, False, False, 1, 2))
        saved = list(self.temps)
        bs, bl = self.simple_block(ind + "        ", self.r.randint(1, 2))
        self.temps = saved
        saved_ac, self.after_choice = self.after_choice, True
        ds, dl = self.divert(ind + "        ")
        self.after_choice = saved_ac
        choice = {"cid": self.fresh("#c"), "start": self.body([]), "only": self.body(o), "out": self.body([{"k": "nl"}]),
                  "body": self.body(bs + ds), "conds": [], "sticky": False, "fb": False}
        branch = self.body([{"k": "nl"}, {"k": "chc", "cs": [choice], "rest": self.body([])}])
        lines = ["%s{ %s:" % (ind, tc), "%s    * [%s]" % (ind, to)] + bl + dl + ["%s}" % ind]
        return [{"k": "if", "br": [{"c": c, "b": branch}]}, {"k": "nl"}], lines

    def block_seq(self, ind):
        mode, kw = self.r.choice([("stop", "stopping"), ("cycle", "cycle"), ("once", "once")])
        alts, lines = [], ["%s{ %s:" % (ind, kw)]
        for _ in range(self.r.randint(2, 3)):
            stmts, text = self.lower(self.segments(allow_glue=False, allow_tags=False, rich=False))
            alts.append(self.body([{"k": "nl"}] + stmts + [{"k": "nl"}]))
            lines.append("%s    - %s" % (ind, text))
        lines.append("%s}" % ind)
        return [{"k": "seq", "mode": mode, "id": self.fresh("q"), "alts": alts}, {"k": "nl"}], lines

    def simple_block(self, ind, n):
        """lines and logic only"""
        stmts, lines = [], []
        for _ in range(n):
            if self.has("set") and self.p(0.3):
                s, l = self.logic(ind)
            else:
                s, l = self.line(ind)
            stmts += s
            lines += l
        return stmts, lines

    def divert_target(self, allow_end=True):
        r = self.r
        k = r.random()
        names = self.knot_names()
        knot = self.cur.split(".")[0]
        me = int(knot[1:]) if knot.startswith("k") and self.kinds.get(knot, "knot") == "knot" else 0
        plain = [n for n in names if self.kinds.get(n, "knot") == "knot"]
        later = [n for n in plain if int(n[1:]) > me]
        # stitches: the later stitches of this knot, and any stitch of a later knot
        if "." in self.cur:
            sts = self.stitched.get(knot, [])
            later += [x for x in sts if x > self.cur]
        for kn in list(later):
            later += self.stitched.get(kn, []) if self.p(0.5) else []
        plain = plain + [x for kn in plain for x in self.stitched.get(kn, [])]
        if allow_end and k < 0.2:
            return "END"
        if allow_end and k < 0.3 and self.has("done"):
            return "DONE"
        # (not into a knot with parameters: they would be undefined there)
        done_labels = [n for n, b in self.gather_labels if b is not None and n.split(".")[0] != "h0" and
                       self.kinds.get(n.split(".")[0], "knot") == "knot" and n.split(".")[0] not in self.kparams]
        if self.has("label_diverts") and done_labels and self.after_choice and k > 0.88:
            # to a labelled gather that has been written already (in this knot: going back - a choice has been taken since)
            return r.choice(done_labels)
        if later and (k < 0.75 or not self.has("loops") or not self.after_choice):
            return r.choice(later)
        if self.has("loops") and plain and self.after_choice:
            # (going back is only allowed where a choice has been taken since the knot was entered: otherwise the
            # story could run in circles within one turn)
            return r.choice(plain)
        return "END"

    def divert(self, ind, target=None):
        knot = self.cur.split(".")[0]
        me = int(knot[1:]) if knot.startswith("k") and self.kinds.get(knot, "knot") == "knot" else 0
        usable = [d for d, vals in sorted(self.dvars.items()) if self.kinds.get(vals[0]) == "knot" and
                  (all(int(v[1:]) > me for v in vals) or (self.has("loops") and self.after_choice))]
        if target is None and usable and self.kinds.get(knot, "knot") in ("knot", "thread") and self.p(0.25):
            # through a variable: wherever it points, the story does not run in circles within a turn
            d = self.r.choice(usable)
            return [{"k": "divv", "x": d}], [ind + "-> " + d]
        t = target or self.divert_target()
        if t == "END":
            return [{"k": "end"}], [ind + "-> END"]
        if t == "DONE":
            return [{"k": "done"}], [ind + "-> DONE"]
        args, at = self.knot_args(t)
        return [{"k": "div", "t": t, "args": args}], [ind + "-> " + t + at]

    def knot_args(self, t):
        """the arguments for a divert / tunnel call / thread start into knot t: (asts, "(texts)")"""
        ps = self.kparams.get(t, [])
        if not ps:
            return [], ""
        args, texts = [], []
        for p_ in ps:
            if p_ in self.kdivparams:
                # a parameter that takes a divert target: one of the knots it is allowed to name
                v = self.r.choice(self.kdivparams[p_])
                a, ta = {"k": "lit", "v": {"t": "div", "v": v}}, "-> " + v
            else:
                a, ta = self.expr(1)
            args.append(a)
            texts.append(ta)
        return args, "(%s)" % ", ".join(texts)

    def flow_items(self, ind, n, level):
        """statements of a weave section without choices"""
        stmts, lines = [], []
        for _ in range(n):
            k = self.r.random()
            if k < 0.12 and self.has("faults") and ind == "" and self.kinds.get(self.cur.split(".")[0], "knot") == "knot":
                # a warning: a temporary is read although its declaration has never been executed (it reads as 0)
                self.wt_n = getattr(self, "wt_n", 0) + 1
                name = "wt%d" % self.wt_n
                w = self.words(1, 1)
                never = {"k": "b", "op": "==", "a": {"k": "lit", "v": I(1)}, "b": {"k": "lit", "v": I(2)}}
                br = [{"c": never, "b": self.body([{"k": "nl"}, {"k": "temp", "x": name, "e": {"k": "lit", "v": I(0)}}])}]
                s = [{"k": "if", "br": br}, {"k": "nl"},
                     {"k": "s", "v": chars("wrn ")}, {"k": "p", "e": {"k": "var", "n": name}}, {"k": "s", "v": chars(" " + w)}, {"k": "nl"}]
                l = ["{", "- (1 == 2):", "    ~ temp %s = 0" % name, "}", "wrn {%s} %s" % (name, w)]
            elif k < 0.5:
                s, l = self.line(ind)
            elif k < 0.68 and self.has("set"):
                s, l = self.logic(ind)
            elif k < 0.70 + (0.06 if self.focus == "threads" else 0.015) and self.has("cond_choices") and level == 1 \
                    and self.kinds.get(self.cur.split(".")[0], "knot") == "knot":
                s, l = self.cond_choice(ind)
            elif k < 0.78 and self.has("block_if"):
                s, l = self.block_if(ind)
            elif k < 0.86 and self.has("block_seq"):
                s, l = self.block_seq(ind)
            elif (k < 0.92 or self.focus == "bursts" and k < 0.97) and k >= (0.6 if self.focus == "bursts" else 0.86) \
                    and self.has("tunnels") and self.tunnel_names():
                t = self.r.choice(self.tunnel_names())
                # now and then the same tunnel several times in a row: with a tunnel that prints nothing, several visits
                # of one container fall into a single look-ahead of the engine
                reps = self.r.randint(2, 3) if self.p(0.9 if self.focus == "bursts" else 0.35) else 1
                tv = [d for d, vals in sorted(self.dvars.items()) if self.kinds.get(vals[0]) == "tunnel"]
                if tv and self.kinds.get(self.cur.split(".")[0], "knot") == "knot" and self.p(0.3):
                    d = self.r.choice(tv)
                    s, l = [{"k": "tunv", "x": d}] * reps, ["%s-> %s ->" % (ind, d)] * reps
                else:
                    args, at = self.knot_args(t)
                    s, l = [{"k": "tun", "t": t, "args": args}] * reps, ["%s-> %s%s ->" % (ind, t, at)] * reps
            elif (k < 0.97 or self.focus == "threads") and k >= (0.7 if self.focus == "threads" else 0.92) \
                    and self.has("threads") and self.thread_names() and level == 1:
                ts = [self.r.choice(self.thread_names())]
                if self.focus == "threads" and len(self.thread_names()) > 1:
                    # two threads in a row: one leaves its choices behind, the other is still printing lines at the next
                    # line end - several live threads while an earlier thread's choice is pending
                    ts = self.r.sample(self.thread_names(), 2)
                tas = [(t,) + self.knot_args(t) for t in ts]
                s, l = [{"k": "thr", "t": t, "args": a} for t, a, _ in tas], ["%s<- %s%s" % (ind, t, at) for t, _, at in tas]
            else:
                s, l = self.line(ind)
            stmts += s
            lines += l
        return stmts, lines

    def callable_from_here(self, kind):
        """tunnels / thread knots that may be entered from the current knot: from a tunnel or thread knot only those
        declared after it (no cycles of tunnels and threads: the call stack would grow without a turn ever ending)"""
        names = [n for n, k in self.kinds.items() if k == kind]
        here = self.cur.split(".")[0]
        if self.kinds.get(here) in ("tunnel", "thread"):
            order = [n for n, k in self.kinds.items() if k in ("tunnel", "thread")]
            names = [n for n in names if order.index(n) > order.index(here)]
        return names

    def tunnel_names(self):
        return self.callable_from_here("tunnel")

    def thread_names(self):
        return self.callable_from_here("thread")

    def choice_block(self, level, tail):
        """a block of choices at `level` followed by its gather; `tail(ind)` -> (stmts, lines) is what follows the
        gather in this weave.  Returns (ch statement, lines)"""
        r = self.r
        mark = "* " * level
        ind = "    " * (level - 1)
        cs, lines = [], []
        n = r.randint(1, 3)
        fb_at = n - 1 if self.has("fallback") and self.p(0.3) else -1
        for i in range(n):
            sticky = self.has("sticky") and self.p(0.3)
            sym = ("+ " if sticky else "* ") * level
            label = None
            head = ind + sym
            if self.has("labels") and self.p(0.3) and i != fb_at:
                label = self.fresh("c")
                head += "(%s) " % label
            conds = []
            if self.has("conds") and self.p(0.3):
                for _ in range(r.randint(1, 2)):
                    self.pcall_ok = True
                    c, tc = self.expr(boolean=True)
                    self.pcall_ok = False
                    conds.append(c)
                    head += "{%s} " % tc
            cid = "%s.%s" % (self.cur, label) if label else self.fresh("#c")
            # the divert written on the choice's own line: `* text -> target` (the line goes on in the target), `* -> target`
            inline = self.has("choice_divert") and self.p(0.2)
            if i == fb_at:
                # invisible default choice: no text, content on the following lines
                start_b, only_b, out_b = self.body([]), self.body([]), self.body([])
                lines.append(head + "->")
            else:
                rich = "print" if self.has("choice_print") else False
                a, ta = self.lower(self.segments(False, False, rich, 1, 2))
                form = r.random()
                if form < 0.4:
                    start, only, inner, text = a, [], [], ta
                elif form < 0.7:
                    o, to = self.lower(self.segments(False, False, False, 1, 1))
                    b, tb = self.lower(self.segments(False, False, rich, 1, 2))
                    b = [{"k": "s", "v": chars(" ")}] + b
                    a = a + [{"k": "s", "v": chars(" ")}]
                    start, only, inner, text = a, o, b, "%s [%s] %s" % (ta, to, tb)
                elif form < 0.85:
                    o, to = self.lower(self.segments(False, False, False, 1, 2))
                    start, only, inner, text = [], o, [], "[%s]" % to
                else:
                    o, to = self.lower(self.segments(False, False, False, 1, 1))
                    start, only, inner, text = a, o, [], "%s[%s]" % (ta, to)
                if self.has("choice_tags") and self.p(0.3):
                    # a tag in the start text (choice and printed line), in the brackets (choice only) or after them
                    # (printed line only)
                    tg = self.words(1, 1)
                    tag = [{"k": "s", "v": chars(" ")}, {"k": "tag", "b": self.body([{"k": "s", "v": chars(tg)}])}]
                    if "[" not in text:
                        start, text = start + tag, text + " # " + tg
                    elif self.p(0.5) and only:
                        only = only + tag
                        text = text.replace("]", " # %s]" % tg, 1)
                    elif inner:
                        inner, text = inner + tag, text + " # " + tg
                    inline = False
                start_b, only_b = self.body(start), self.body(only)
                out_b = self.body(clone(start) + clone(inner) + ([{"k": "s", "v": chars(" ")}] if inline else [{"k": "nl"}]))
                lines.append(head + text)
            # body of the choice
            saved = list(self.temps)
            saved_ac, self.after_choice = self.after_choice, not (i == fb_at)
            bind = "    " * level
            if inline:
                bstmts, dl = self.divert("")
                lines[-1] = (lines[-1][:-2] + dl[0]) if i == fb_at else (lines[-1] + " " + dl[0])
                blines = []
            else:
                bstmts, blines = self.flow_items(bind, r.randint(0, 2), level + 1)
            if inline:
                pass
            elif level < 2 and self.has("nested") and self.p(0.3):
                s, l = self.choice_block(level + 1, lambda ind2: self.flow_items(ind2, r.randint(0, 1), level + 1))
                bstmts += s
                blines += l
            elif self.p(0.25):
                s, l = self.divert(bind)
                bstmts += s
                blines += l
            self.temps = saved
            self.after_choice = saved_ac
            if i == fb_at and not blines and not inline:
                s, l = self.line(bind)
                bstmts += s
                blines += l
            body_b = self.body(bstmts)
            lines += blines
            if label:
                self.labels.append((self.cur, label))
            cs.append({"cid": cid, "start": start_b, "only": only_b, "out": out_b, "body": body_b, "conds": conds,
                       "sticky": sticky, "fb": i == fb_at})
        # the gather
        gmark = ind + "- " * level
        rest, glines = [], []
        glabel = None
        if self.has("labels") and self.p(0.3):
            glabel = self.fresh("g")
            rest.append({"k": "gl", "label": "%s.%s" % (self.cur, glabel)})
            gmark += "(%s) " % glabel
        if self.p(0.6):
            s, t = self.lower(self.segments(False, False, True if self.has("choice_divert") else ("print" if self.has("print") else False)))
            rest += s + [{"k": "nl"}]
            glines.append(gmark + t)
        else:
            glines.append(gmark.rstrip())
        if glabel:
            self.labels.append((self.cur, glabel))
            if level == 1:
                self.gather_labels.append(("%s.%s" % (self.cur, glabel), None))     # body number filled in below
        saved_ac, self.after_choice = self.after_choice, self.after_choice or fb_at < 0
        s, l = tail(ind)
        self.after_choice = saved_ac
        rest += s
        glines += l
        rest_b = self.body(rest)
        if glabel and level == 1:
            full = "%s.%s" % (self.cur, glabel)
            self.gather_labels = [(n, rest_b if n == full else b) for n, b in self.gather_labels]
            self.label_bodies[full] = rest_b
        return [{"k": "ch", "cs": cs, "rest": rest_b}], lines + glines

    def knot_body(self, kind):
        r = self.r
        n = max(1, int(r.randint(1, 4) * self.size))
        if kind == "tunnel" and self.p(0.9 if self.focus == "bursts" else 0.5):
            # a quiet tunnel: logic only
            stmts, lines = [], []
            for _ in range(r.randint(1, 2)):
                s_, l_ = self.logic("")
                stmts += s_
                lines += l_
            self.quiet.add(self.cur)
            return stmts + [{"k": "tret"}], lines + ["->->"]
        stmts, lines = self.flow_items("", n, 1)
        if self.focus == "assign" and kind in ("knot", "thread"):
            # globals assigned before the last line end AND after it (in look-ahead that is kept because choices or the end
            # follow): one change for an observer, not two
            ints = [g["n"] for g in self.globals if g["v"]["t"] == "int"]
            for _ in range(self.r.randint(1, 2)):
                x = self.r.choice(ints)
                e, t = self.expr()
                stmts += [{"k": "set", "x": x, "e": e}] + [NL] * has_call(e)
                lines.append("~ %s = %s" % (x, t))
                if self.p(0.7):
                    s_, l_ = self.line("")
                    stmts += s_
                    lines += l_
                e, t = self.expr()
                stmts += [{"k": "set", "x": x, "e": e}] + [NL] * has_call(e)
                lines.append("~ %s = %s" % (x, t))
        quiet = [t for t in self.tunnel_names() if t in self.quiet or self.kinds.get(t) == "tunnel" and t not in self.knots]
        if self.focus == "bursts" and kind == "knot" and quiet and self.p(0.8):
            # the look-ahead past the last line runs through the same silent tunnel several times and is then KEPT
            # (choices or the end follow, no text): every visit has to be counted
            t = self.r.choice(quiet)
            reps = self.r.randint(2, 3)
            args, at = self.knot_args(t)
            stmts += [{"k": "tun", "t": t, "args": args}] * reps
            lines += ["-> %s%s ->" % (t, at)] * reps

        def ending(ind):
            if kind == "tunnel":
                return [{"k": "tret"}], [ind + "->->"]
            if kind == "thread":
                return [{"k": "done"}], [ind + "-> DONE"]
            return self.divert(ind)

        def tail2(ind):
            s, l = self.flow_items(ind, r.randint(0, 2), 1)
            e, el = ending(ind)
            return s + e, l + el

        def tail1(ind):
            s, l = self.flow_items(ind, r.randint(0, 2), 1)
            if self.has("choices") and self.p(0.3):
                c, cl = self.choice_block(1, tail2)
                return s + c, l + cl
            e, el = ending(ind)
            return s + e, l + el

        if kind == "thread" and self.focus == "threads" and self.cur.endswith("1"):
            # a thread of text only, several lines long
            for _ in range(2):
                s_, l_ = self.line("")
                stmts += s_
                lines += l_
            return stmts + [{"k": "done"}], lines + ["-> DONE"]
        if self.has("choices") and kind != "tunnel" and self.p(0.75 if kind == "knot" else 1.0):
            c, cl = self.choice_block(1, tail1 if kind == "knot" else (lambda ind: ending(ind)))
            stmts += c
            lines += cl
        elif self.has("faults") and kind == "knot" and self.p(0.4):
            # a loose end: the story runs out of content here (a runtime error).  (Only where no weave precedes: after a
            # gather the compiler ends the flow quietly.)
            pass
        else:
            e, el = ending("")
            stmts += e
            lines += el
        return stmts, lines

    def func_body(self, params):
        """lines, logic, conditionals with early returns; ends with a return of a value"""
        r = self.r
        stmts, lines = [], []
        if self.funcs and self.p(0.95 if self.focus == "nested" else 0.6):
            # the function calls another one before it has printed anything itself, then goes on with lines of its own
            if self.p(0.5):
                st, t = self.call_stmt("print")
                stmts += [st, {"k": "nl"}]
                lines.append("{%s}" % t)
            else:
                st, t = self.call_stmt("drop")
                stmts += [st, NL]
                lines.append("~ %s" % t)
            s, l = self.line("")
            stmts += s
            lines += l
        for _ in range(r.randint(0, 3)):
            k = r.random()
            if k < 0.45:
                s, l = self.line("")
            elif k < 0.75 and self.has("set"):
                s, l = self.logic("")
            elif self.has("block_if"):
                c, tc = self.expr(boolean=True)
                saved = list(self.temps)
                bs, bl = self.simple_block("    ", r.randint(1, 2))
                if self.p(0.5):
                    e, t = self.expr()
                    bs.append({"k": "ret", "e": e})
                    bl.append("    ~ return %s" % t)
                self.temps = saved
                s, l = [{"k": "if", "br": [{"c": c, "b": self.body([{"k": "nl"}] + bs)}]}, {"k": "nl"}], ["{", "- %s:" % tc] + bl + ["}"]
            else:
                s, l = self.line("")
            stmts += s
            lines += l
        e, t = self.expr()
        stmts.append({"k": "ret", "e": e})
        lines.append("~ return %s" % t)
        return stmts, lines

    # ------------------------------------------------------------------ program
    def program(self):
        r = self.r
        for i in range(r.randint(1, 3)):
            self.globals.append({"n": "v%d" % i, "v": I(r.randint(0, 3))})
        if self.has("typed_vars"):
            for i in range(r.randint(0, 2)):
                self.globals.append({"n": "s%d" % i, "v": {"t": "str", "v": chars(r.choice(WORDS))}})
            for i in range(r.randint(0, 2)):
                self.globals.append({"n": "b%d" % i, "v": {"t": "bool", "v": self.p(0.5)}})
        names = self.knot_names()
        for n in names:
            self.kinds[n] = "knot"
        extra = []
        if self.has("tunnels"):
            for i in range(r.randint(1, 2) if self.focus == "bursts" else r.randint(0, 2)):
                extra.append(("u%d" % i, "tunnel"))
        if self.has("threads"):
            for i in range(2 if self.focus == "threads" else r.randint(0, 2)):
                extra.append(("h%d" % i, "thread"))
        for n, k in extra:
            self.kinds[n] = k
        def lit(v):
            if v["t"] == "str":
                return '"%s"' % "".join(chr(c) for c in v["v"])
            if v["t"] == "bool":
                return "true" if v["v"] else "false"
            if v["t"] == "div":
                return "-> " + v["v"]
            return str(v["v"])
        if self.has("stitches"):
            for n in names[1:]:
                if self.p(0.35):
                    self.stitched[n] = ["%s.z%d" % (n, j) for j in range(2)]
        if self.has("params"):
            # parameters of knots, tunnels and threads (not of the entry knot, not of knots that consist of stitches)
            for n in names[1:] + [x for x, _ in extra]:
                if n not in self.stitched and self.p(0.5):
                    self.kparams[n] = ["p%s_%d" % (n, j) for j in range(r.randint(1, 2))]
            if self.has("divert_vars"):
                # a parameter that takes a divert target (`== k1(-> q) ==`, `-> q`): it is only ever given knots that come
                # later than the knot itself and have no parameters of their own
                for i, n in reversed(list(enumerate(names[1:], 1))):       # (the later knots are decided first)
                    later = [x for x in names[i + 1:] if x not in self.kparams]
                    if n not in self.stitched and later and self.p(0.4):
                        q = "q%s" % n
                        self.kparams.setdefault(n, []).append(q)
                        self.kdivparams[q] = later
        if self.has("divert_vars"):
            # globals that hold divert targets: d<i> a plain knot other than the entry knot, w<i> a tunnel; no parameters
            plain = [n for n in names[1:] if n not in self.kparams]
            tunnels = [n for n, k in extra if k == "tunnel" and n not in self.kparams]
            if plain and self.p(0.7):
                vals = r.sample(plain, min(len(plain), r.randint(1, 2)))
                self.dvars["d0"] = vals
                self.globals.append({"n": "d0", "v": {"t": "div", "v": r.choice(vals)}})
            if tunnels and self.p(0.5):
                self.dvars["w0"] = list(tunnels)
                self.globals.append({"n": "w0", "v": {"t": "div", "v": r.choice(tunnels)}})
        if self.has("sugar"):
            for i in range(r.randint(0, 2)):
                self.consts["cn%d" % i] = r.randint(0, 4)
        src = ["CONST %s = %d" % kv for kv in sorted(self.consts.items())] + ["VAR %s = %s" % (g["n"], lit(g["v"])) for g in self.globals]
        self.cur = ""
        root = self.body([{"k": "div", "t": "k0"}])
        src.append("-> k0")
        if self.has("externals"):
            for i in range(r.randint(1, 2)):
                n = r.randint(1, 2)
                self.externs.append({"name": "e%d" % i, "params": ["p%d" % j for j in range(n)],
                                     "coef": [r.randint(1, 3) for _ in range(n)], "add": r.randint(0, 2), "safe": self.p(0.5)})
            src += ["EXTERNAL %s(%s)" % (x["name"], ", ".join(x["params"])) for x in self.externs]
        fsrc = []
        if self.has("pure_calls"):
            # pure functions: the body is one `~ return expr` over the parameters, globals and read counts; a later one may
            # call an earlier one
            for i in range(r.randint(1, 2)):
                name = "g%d" % i
                params = ["x%d_%d" % (i, j) for j in range(r.randint(0, 2))]
                self.cur = name
                self.temps = list(params)
                self.pcall_ok = True
                e, t = self.expr()
                self.pcall_ok = False
                b = self.body([{"k": "ret", "e": e}])
                self.knots[name] = {"body": b, "kind": "function", "params": params, "chain": [name], "auto": False}
                fsrc.append("== function %s(%s) ==" % (name, ", ".join(params)))
                fsrc.append("~ return %s" % t)
                self.pures.append({"name": name, "params": params})
        if self.has("functions"):
            for i in range(r.randint(2, 3)):
                name = "f%d" % i
                params = ["a%d_%d" % (i, j) for j in range(r.randint(0, 2))]
                refs = [x for x in params if self.has("refs") and self.p(0.35)]
                self.cur = name
                self.temps = list(params)
                self.after_choice = False
                b = self.body()
                stmts, lines = self.func_body(params)      # may call the functions generated before it
                self.bodies[b - 1] = stmts
                self.knots[name] = {"body": b, "kind": "function", "params": params, "chain": [name], "auto": False}
                fsrc.append("== function %s(%s) ==" % (name, ", ".join(("ref " + x) if x in refs else x for x in params)))
                fsrc += lines
                self.funcs.append({"name": name, "params": params, "refs": refs})
        for n in names + [n for n, _ in extra]:
            if n in self.stitched:
                # a knot that consists of stitches: diverting to the knot runs its first stitch
                src.append("== %s ==" % n)
                first = None
                for st in self.stitched[n]:
                    self.cur = st
                    self.temps = []
                    self.after_choice = False
                    b = self.body()
                    stmts, lines = self.knot_body("knot")
                    self.bodies[b - 1] = stmts
                    self.knots[st] = {"body": b, "kind": "knot", "params": [], "chain": [n, st], "auto": False}
                    first = first or (b, st)
                    src.append("= %s" % st.split(".")[1])
                    src += lines
                # (the knot's own content is the divert to its first stitch)
                self.cur = n
                self.knots[n] = {"body": self.body([{"k": "div", "t": first[1]}]), "kind": "knot", "params": [], "chain": [n],
                                 "auto": False}
                continue
            self.cur = n
            ps = self.kparams.get(n, [])
            self.temps = [x for x in ps if x not in self.kdivparams]
            saved_dvars = dict(self.dvars)
            for x in ps:
                if x in self.kdivparams:
                    self.dvars[x] = self.kdivparams[x]      # usable like a global that holds a divert target, in this knot
            self.after_choice = False
            b = self.body()                     # reserve the number: the knot's body comes first
            stmts, lines = self.knot_body(self.kinds[n])
            self.dvars = saved_dvars
            self.bodies[b - 1] = stmts
            self.knots[n] = {"body": b, "kind": self.kinds[n], "params": ps, "chain": [n], "auto": False}
            src.append("== %s%s ==" % (n, "(%s)" % ", ".join(("-> " + x) if x in self.kdivparams else x for x in ps) if ps else ""))
            src += lines
        src += fsrc
        prog = {"bodies": self.bodies, "knots": self.knots, "globals": self.globals, "root": root, "owner": self.owner,
                "ochain": self.ochain,
                "externs": {x["name"]: {"coef": x["coef"], "add": x["add"], "safe": x["safe"]} for x in self.externs},
                "labels": {n: {"body": b} for n, b in self.label_bodies.items()}}
        return prog, "\n".join(src) + "\n"


def clone(stmts):
    import copy
    return copy.deepcopy(stmts)


def generate(seed, features=None, knots=3, size=1.0, focus=None):
    g = Gen(seed, features, knots, size, focus)
    prog, src = g.program()
    binds = [{"op": "bind", "name": x["name"], "safe": x["safe"], "spec": {"impl": "lin", "coef": x["coef"], "add": x["add"]}}
             for x in g.externs]
    return {"prog": prog, "ink": src, "seed": seed, "knots": list(g.knots), "features": sorted(g.f), "binds": binds}


if __name__ == "__main__":
    import sys
    p = generate(int(sys.argv[1]) if len(sys.argv) > 1 else 1)
    print(p["ink"])
