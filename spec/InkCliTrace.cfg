SPECIFICATION Spec
POSTCONDITION AllConsumed
CHECK_DEADLOCK FALSE
