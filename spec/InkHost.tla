-------------------------------- MODULE InkHost --------------------------------
(***************************************************************************)
(* The host interface of a story as an executable model: every public call *)
(* of a host history has a result (ok / err) and an effect on a state made *)
(* of the machine of InkSem (current flow + shared variables, counts and   *)
(* turn index), the other flows, and the host's save slots.  `cont` is the *)
(* look-ahead loop of InkLook; everything else is one step.                *)
(*                                                                         *)
(* The model answers ABSOLUTELY - from the syntax tree alone - what the     *)
(* relational rules of InkHostAbs answer relative to base runs:            *)
(*   C09  a refused call (result err) leaves the state as it was           *)
(*   C02  load puts back exactly the saved state, whatever happened since  *)
(*   C10  flows have their own call stack, output and choices and share    *)
(*        variables, visit counts and the turn index                       *)
(*   C17  reset is the initial state; the slots are the host's and stay    *)
(* and spec/InkHostOps.tla checks recorded histories of the real engine    *)
(* against it call by call, including the save document's structure.       *)
(*                                                                         *)
(* Code: runtime/src/story/{progress,choices,navigation,flow,state}.rs,    *)
(* runtime/src/story_state.rs (switch_flow_internal, remove_flow_internal, *)
(* force_end, set_chosen_path).                                            *)
(***************************************************************************)
EXTENDS Integers, Sequences, FiniteSets, TLC

CONSTANT Prog

S == INSTANCE InkSem
L == INSTANCE InkLook
OS == INSTANCE InkOutput

DefaultFlow == "DEFAULT_FLOW"

\* host state: m the machine (current flow and shared state), cur its flow's name, others the flows not current
\* (name -> flow record), slots the host's saved states
\* obs: the registered (observer, variable) pairs; async: a time-limited continue has been started and not finished
\* handler: the host has installed an error handler
Init == [m |-> S!Start, cur |-> DefaultFlow, others |-> <<>>, slots |-> <<>>, obs |-> <<>>, async |-> FALSE, handler |-> FALSE]

FlowOf(m) == [th |-> m.th, out |-> m.out, ch |-> m.ch, st |-> m.st, safe |-> m.safe, last |-> m.last]
WithFlow(m, f) == [m EXCEPT !.th = f.th, !.out = f.out, !.ch = f.ch, !.st = f.st, !.safe = f.safe, !.last = f.last]
NewFlow == [th |-> << <<S!Act("root", Prog.root)>> >>, out |-> <<>>, ch |-> <<>>, st |-> "run", safe |-> FALSE, last |-> <<>>]
Alive(h) == {h.cur} \cup DOMAIN h.others

Ok(h) == [h |-> h, res |-> "ok"]
Refused(h) == [h |-> h, res |-> "err"]          \* the state is the one the call found

CanContinue(h) == L!CanContinue(h.m)

\* ---------------------------------------------------------------- choose_choice_index
Choose(h, i) ==
  LET vis == IF CanContinue(h) THEN <<>> ELSE S!Visible(h.m) IN
  IF i < 0 \/ i >= Len(vis) THEN Refused(h)
  ELSE LET c == vis[i + 1]
           m1 == [h.m EXCEPT !.th = <<c.th>>, !.ch = <<>>, !.st = "run", !.turn = h.m.turn + 1, !.safe = FALSE] IN
       Ok([h EXCEPT !.m = S!Visit(m1, c.cid)])

\* ---------------------------------------------------------------- set_variable
SetVar(h, name, v) ==
  IF name \notin DOMAIN h.m.vars THEN Refused(h) ELSE Ok([h EXCEPT !.m.vars = S!Put(h.m.vars, name, v)])

\* ---------------------------------------------------------------- choose_path_string
\* a jump decided by the host: the choices on offer are dropped, the turn index advances, the containers entered are
\* counted as for a divert; with reset the call stack is a fresh one (nothing is "where we came from")
ChoosePath(h, target, reset) ==
  IF ~S!IsKnot(target) \/ S!Knot(target).kind # "knot" THEN Refused(h)
  ELSE LET m == h.m
           \* (the turn index advances first: the containers entered are stamped with the new turn)
           base == [m EXCEPT !.th = IF reset THEN S!Fresh ELSE m.th, !.ch = <<>>, !.st = "run", !.turn = m.turn + 1, !.safe = FALSE,
                             !.last = IF reset THEN <<>> ELSE m.last]
           \* where the jump comes from is where the story last EXECUTED something - not where an earlier jump, not yet
           \* continued from, has put it: two jumps in a row into the same knot count it twice
           m1 == S!VisitAll(base, S!Knot(target).chain, base.last)
           a == S!CurAct(m1) IN
       IF ~reset /\ S!CurAct(m).kind = "fn" THEN Refused(h)
       ELSE Ok([h EXCEPT !.m = S!SetAct(m1, [a EXCEPT !.fr = <<S!Frame(S!Knot(target).body)>>])])

\* ---------------------------------------------------------------- flows
SwitchFlow(h, name) ==
  IF name = h.cur THEN Ok(h)
  ELSE LET f == IF name \in DOMAIN h.others THEN h.others[name] ELSE NewFlow
           rest == [n \in (DOMAIN h.others) \ {name} |-> h.others[n]] IN
       Ok([h EXCEPT !.m = WithFlow(h.m, f), !.cur = name, !.others = (h.cur :> FlowOf(h.m)) @@ rest])

\* (before any other flow has existed there is nothing to switch)
SwitchDefault(h) == IF h.others = <<>> THEN Ok(h) ELSE SwitchFlow(h, DefaultFlow)

RemoveFlow(h, name) ==
  IF name = DefaultFlow \/ name \notin Alive(h) THEN Refused(h)
  ELSE LET h1 == IF name = h.cur THEN SwitchFlow(h, DefaultFlow).h ELSE h IN
       Ok([h1 EXCEPT !.others = [n \in (DOMAIN h1.others) \ {name} |-> h1.others[n]]])

\* ---------------------------------------------------------------- save / load / reset
Save(h, slot) == Ok([h EXCEPT !.slots = (slot :> [m |-> h.m, cur |-> h.cur, others |-> h.others]) @@ h.slots])
Load(h, slot) ==
  IF slot \notin DOMAIN h.slots THEN Refused(h)        \* (the harness hands over an empty document)
  \* (messages are not part of a saved state: the pending ones stay as they are)
  ELSE LET d == h.slots[slot] IN Ok([h EXCEPT !.m = [d.m EXCEPT !.err = h.m.err, !.warns = h.m.warns], !.cur = d.cur, !.others = d.others])
Reset(h) == Ok([h EXCEPT !.m = S!Start, !.cur = DefaultFlow, !.others = <<>>])

\* ---------------------------------------------------------------- errors and warnings (C13)
\* What a continue that has left its loop with machine m does with the messages: running out of content is an error
\* raised now; with a handler installed every pending message is handed over, errors first, and forgotten, and the
\* continue succeeds; without one an error makes the continue fail and stays (the story cannot continue until it is
\* reset), a warning stays readable and the continue succeeds.
SetHandler(h) == Ok([h EXCEPT !.handler = TRUE])
Deliver(h, m) ==
  LET m1 == L!OutOfContent(m)
      pending == (IF m1.err # "" THEN <<[k |-> "E", c |-> m1.err]>> ELSE <<>>) \o [i \in 1..Len(m1.warns) |-> [k |-> "W", c |-> m1.warns[i]]] IN
  IF h.handler THEN [m |-> [m1 EXCEPT !.err = "", !.warns = <<>>], res |-> "ok", msgs |-> pending]
  ELSE [m |-> m1, res |-> IF m1.err # "" THEN "err" ELSE "ok", msgs |-> <<>>]

\* ---------------------------------------------------------------- variable observers (C11)
\* obs is a bag: registering the same observer for the same variable again means being told again
Observe(h, id, var) ==
  IF var \notin DOMAIN h.m.vars THEN Refused(h)
  ELSE LET p == <<id, var>> IN Ok([h EXCEPT !.obs = (p :> (IF p \in DOMAIN h.obs THEN h.obs[p] + 1 ELSE 1)) @@ h.obs])
Unobserve(h, id, var) ==
  IF <<id, var>> \notin DOMAIN h.obs THEN Refused(h)
  ELSE LET q == <<id, var>> IN       \* one registration is taken away
       Ok([h EXCEPT !.obs = IF h.obs[q] > 1 THEN [h.obs EXCEPT ![q] = h.obs[q] - 1]
                            ELSE [p \in (DOMAIN h.obs) \ {q} |-> h.obs[p]]])
\* What the observers are told when a continue completes: every watcher of a global that was given a DIFFERENT value
\* during it - in the part that was kept, not in look-ahead that was rewound - exactly once per registration, with the
\* final value (must).  A global that was assigned a value equal to the one it had may or may not count as changed
\* (the engine goes by the identity of the value object): its watchers are told all or not at all (may).
Told(h, vars, names) == [t \in {<<p[1], p[2], vars[p[2]]>> : p \in {q \in DOMAIN h.obs : q[2] \in names}} |-> h.obs[<<t[1], t[2]>>]]
NotesAfterCont(h, m) == [must |-> Told(h, m.vars, m.dirty), may |-> Told(h, m.vars, m.touched)]
\* a host assignment tells the watchers of that variable at once; reset re-initialises every global
NotesAfterSet(h, name, v) ==
  LET t == IF name \in DOMAIN h.m.vars THEN Told(h, S!Put(h.m.vars, name, v), {name}) ELSE <<>> IN [must |-> t, may |-> t]
NotesAfterReset(h) == LET t == Told(h, S!Start.vars, DOMAIN S!Start.vars) IN [must |-> t, may |-> t]
NoNotes == [must |-> <<>>, may |-> <<>>]
\* rec: the recorded notifications, a sequence of <<observer, variable, value>>
NotesOk(rec, n) ==
  LET cnt(t) == Cardinality({i \in DOMAIN rec : rec[i] = t}) IN
  /\ \A i \in DOMAIN rec : rec[i] \in DOMAIN n.may
  /\ \A t \in DOMAIN n.may : IF t \in DOMAIN n.must THEN cnt(t) = n.may[t] ELSE cnt(t) \in {0, n.may[t]}

\* several continues in one call (evaluate_function): the bags add up; each watcher is told between must and may times
BagSum(a, b) == [t \in (DOMAIN a) \cup (DOMAIN b) |-> (IF t \in DOMAIN a THEN a[t] ELSE 0) + (IF t \in DOMAIN b THEN b[t] ELSE 0)]
NotesSum(n1, n2) == [must |-> BagSum(n1.must, n2.must), may |-> BagSum(n1.may, n2.may)]
NotesWithin(rec, n) ==
  LET cnt(t) == Cardinality({i \in DOMAIN rec : rec[i] = t}) IN
  /\ \A i \in DOMAIN rec : rec[i] \in DOMAIN n.may
  /\ \A t \in DOMAIN n.may : cnt(t) <= n.may[t] /\ (t \in DOMAIN n.must => cnt(t) >= n.must[t])

\* ---------------------------------------------------------------- evaluate_function
\* The host runs a function of the story: a frame of its own kind is pushed on the current thread, the output so far is
\* set aside, the function is continued line by line until it cannot continue, the lines are the text result, the
\* returned value the value result; then the frame is popped and the output put back.  What the function did to
\* globals, counts and sequence counters stays.  (C16)
EvalBegin(h, f, args) ==
  IF ~S!IsKnot(f) \/ S!Knot(f).kind # "function" THEN [h |-> h, res |-> "err", saved |-> <<>>]
  ELSE LET fn == S!Knot(f)
           temps == [x \in {fn.params[i] : i \in 1..Len(fn.params)} |->
                       LET i == CHOOSE i \in 1..Len(fn.params) : fn.params[i] = x IN
                       IF i <= Len(args) THEN args[i] ELSE S!I(0)]
           act == [kind |-> "game", fr |-> <<S!Frame(fn.body)>>, temps |-> temps, fnStart |-> 0, fnStart0 |-> 0,
                   cont |-> [mode |-> "game"], prev |-> <<>>]
           m == h.m
           m1 == [m EXCEPT !.out = <<>>, !.st = "run", !.safe = FALSE, !.ret = [t |-> "void"],
                           !.th = << <<act>> \o Head(m.th) >> \o Tail(m.th)] IN
       [h |-> [h EXCEPT !.m = m1], res |-> "ok", saved |-> [out |-> m.out, st |-> m.st, safe |-> m.safe, last |-> m.last]]

EvalEnd(h, saved) ==
  LET m == h.m
      t == Head(m.th) IN
  \* (where the story last stood is put back as well: the function is not where a later jump "comes from")
  [h EXCEPT !.m = [m EXCEPT !.out = saved.out, !.st = saved.st, !.safe = saved.safe, !.last = saved.last,
                            !.th = <<Tail(t)>> \o Tail(m.th)]]

\* ---------------------------------------------------------------- what the host sees
Seen(h) ==
  LET m == h.m
      vis == IF CanContinue(h) THEN <<>> ELSE S!Visible(m) IN
  [ text |-> OS!CurrentText(m.out), tags |-> L!TagsOf(m.out), can |-> CanContinue(h),
    choices |-> [i \in 1..Len(vis) |-> [text |-> vis[i].text, tags |-> vis[i].tags]],
    vars |-> m.vars, cur |-> h.cur, alive |-> Alive(h),
    nerr |-> IF m.err # "" THEN 1 ELSE 0, warns |-> m.warns ]

=============================================================================
