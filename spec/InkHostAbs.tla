----------------------------- MODULE InkHostAbs -----------------------------
(***************************************************************************)
(* Property-level specification of the bladeink host protocol              *)
(* (DESIGN.md 3.2).                                                        *)
(*                                                                         *)
(* What a story MEANS is deliberately not modelled here.  A story is a     *)
(* position in a reference transition system given by the constants        *)
(*                                                                         *)
(*   Kids[n][lab]   the position reached from position n by the valid      *)
(*                  host operation labelled lab                            *)
(*   NObs[n]        what a host can observe at position n                  *)
(*   NRes[n], NCb[n], NVal[n]                                              *)
(*                  result class, callbacks and returned value of the      *)
(*                  operation that led to n                                *)
(*                                                                         *)
(* and every host operation is specified by what it does to the position:  *)
(* a rejected call stutters, a load jumps back to the saved position, a    *)
(* reset returns to the home position, an unfinished time-limited continue *)
(* stutters until the completing slice, evaluating a function stutters,    *)
(* switching flows changes which position is current.  These rules ARE     *)
(* the relational properties C02 C08 C09 C10 C16 C17; the callback rules   *)
(* of C11 C12 C13 are stated over the same events (InkHostRules).          *)
(*                                                                         *)
(* The module is used three ways: model-checked on its own over a small    *)
(* synthetic reference system (InkHostAbsMC); as the refinement target of  *)
(* the mechanism model InkHost; and as the acceptor of traces recorded     *)
(* from the implementation (InkHostTrace), where Kids/NObs come from base  *)
(* runs of the same build.                                                 *)
(***************************************************************************)
EXTENDS Naturals, Integers, Sequences, FiniteSets, TLC

CONSTANTS Kids, NObs, NRes, NCb, NVal

DefaultFlow == "DEFAULT_FLOW"
NoNode == 0

(***************************************************************************)
(* Abstract state of one story instance.                                   *)
(*   pos    flow name -> position (only alive flows)                       *)
(*   cur    current flow                                                   *)
(*   pend   a time-limited continue is unfinished                          *)
(*   home   position a reset returns to: the fresh story with the          *)
(*          registrations (observers, bindings, handler) made so far       *)
(*   froot  flow name -> position a newly created flow starts at           *)
(*   last   the observation after the previous call on this instance       *)
(*   acc    callbacks accumulated by the slices of an unfinished continue  *)
(*   memo   results of pure function evaluations made at this position     *)
(*   multi  the instance has ever had a second flow                        *)
(*   watch  registered (observer, variable) pairs; survives reset and load  *)
(*   vm     the globals as of the previous call (name -> value id)         *)
(*   calls  external function -> number of host callbacks so far           *)
(*   pmsgs  messages raised outside a continue (e.g. by the constructor)   *)
(*          and not yet handed to a handler                                *)
(*   lost   the position is not tracked (after an operation this           *)
(*          specification says nothing about); only reset and load         *)
(*          re-establish it                                                *)
(***************************************************************************)
Fresh(root, froot) ==
  [ pos |-> (DefaultFlow :> root), cur |-> DefaultFlow, pend |-> FALSE, home |-> root,
    froot |-> froot, last |-> NObs[root], acc |-> <<>>, memo |-> <<>>, multi |-> FALSE,
    lost |-> FALSE, watch |-> {}, vm |-> <<>>, calls |-> <<>>, pmsgs |-> NObs[root].newmsgs,
    warned |-> {} ]        \* the temporaries (numbers) a message seen by the host has complained about so far

Here(s) == s.pos[s.cur]
Alive(s) == DOMAIN s.pos

HasKid(n, lab) == lab \in DOMAIN Kids[n]
Kid(n, lab) == Kids[n][lab]

(***************************************************************************)
(* Operations.  Each is a function from abstract state (and arguments) to  *)
(* abstract state; the actions of the specification are s' = F(s, args).   *)
(***************************************************************************)

\* a valid, state-changing operation of the current flow: advance along the reference edge
ValidF(s, lab) ==
  [s EXCEPT !.pos = [s.pos EXCEPT ![s.cur] = Kid(Here(s), lab)],
            !.last = NObs[Kid(Here(s), lab)], !.memo = <<>>, !.acc = <<>>, !.pend = FALSE]

\* a registration (observer, binding, handler): valid, and it also moves the home position
RegisterF(s, lab) ==
  LET t == ValidF(s, lab) IN
  IF HasKid(s.home, lab) THEN [t EXCEPT !.home = Kid(s.home, lab)] ELSE t

\* bookkeeping common to every accepted call: what the host saw and which registrations exist
Track(s, e) ==
  LET w == IF e.res # "ok" THEN s.watch
           ELSE IF e.op = "observe" THEN s.watch \cup {<<e.wo, e.wv>>}
           ELSE IF e.op = "remove_observer" /\ e.wv # "" THEN s.watch \ {<<e.wo, e.wv>>}
           ELSE IF e.op = "remove_observer" THEN {p \in s.watch : p[1] # e.wo}
           ELSE s.watch
      c == [f \in DOMAIN e.ext |-> (IF f \in DOMAIN s.calls THEN s.calls[f] ELSE 0) + e.ext[f]] IN
  [s EXCEPT !.watch = w, !.vm = e.vm, !.calls = c @@ s.calls,
            !.pmsgs = IF e.op = "cont" THEN <<>> ELSE s.pmsgs,
            !.warned = s.warned \cup {e.wvars[i] : i \in DOMAIN e.wvars}]

\* a rejected call: nothing changes (C09)
RejectedF(s) == s

\* an unfinished slice of a time-limited continue: the position does not move (C08)
SliceF(s, cbs) == [s EXCEPT !.pend = TRUE, !.acc = s.acc \o cbs]

\* the completing slice is the continue itself
FinishF(s) == ValidF(s, "c")

\* saving does not change the story; the slot receives the whole abstract state (C02)
SaveSlot(s, saveId) == [pos |-> s.pos, cur |-> s.cur, multi |-> s.multi, save |-> saveId]

\* loading: jump to the saved position in any instance of the same program (C02)
LoadF(s, slot) ==
  [s EXCEPT !.pos = slot.pos, !.cur = slot.cur, !.multi = slot.multi, !.pend = FALSE, !.lost = FALSE,
            !.last = NObs[slot.pos[slot.cur]], !.memo = <<>>, !.acc = <<>>]

\* reset: back to the home position, a single default flow; registrations stay (C17)
ResetF(s) ==
  [s EXCEPT !.pos = (DefaultFlow :> s.home), !.cur = DefaultFlow, !.pend = FALSE, !.lost = FALSE,
            !.last = NObs[s.home], !.memo = <<>>, !.acc = <<>>, !.multi = FALSE]

\* an operation about which this specification says nothing (e.g. a jump to a knot): the
\* position is lost; reset and load must still work from wherever the story is now
FreeF(s, o) == [s EXCEPT !.lost = TRUE, !.last = o, !.memo = <<>>, !.acc = <<>>]

\* evaluating an Ink function from the host: the story does not move (C16)
EvalF(s, key, val) ==
  [s EXCEPT !.memo = IF key \in DOMAIN s.memo THEN s.memo ELSE (key :> val) @@ s.memo]

\* flows (C10): switching creates the flow at its root if needed and makes it current
SwitchF(s, f) ==
  IF f = s.cur THEN s
  ELSE [s EXCEPT !.cur = f, !.multi = TRUE,
                 !.pos = IF f \in DOMAIN s.pos THEN s.pos ELSE (f :> s.froot[f]) @@ s.pos]

SwitchDefaultF(s) == IF s.multi THEN SwitchF(s, DefaultFlow) ELSE s

RemoveF(s, f) ==
  LET t == IF s.cur = f THEN SwitchDefaultF(s) ELSE s IN
  [t EXCEPT !.pos = [g \in (DOMAIN t.pos) \ {f} |-> t.pos[g]]]

(***************************************************************************)
(* When is a call accepted?  (the guard half of C09)                       *)
(***************************************************************************)
CanContinue(s) == NObs[Here(s)].canB
NumChoices(s) == NObs[Here(s)].nch

ContAccepted(s) == CanContinue(s)
ChooseAccepted(s, k) == k >= 0 /\ k < NumChoices(s)

=============================================================================
