-------------------------------- MODULE Int32 --------------------------------
(***************************************************************************)
(* 32-bit two's-complement integer arithmetic as the Ink reference engine  *)
(* performs it (C# int, unchecked): + - * and unary minus wrap around;     *)
(* / and % truncate toward zero and are undefined (a story error) for a    *)
(* zero divisor.  TLC's own integers are checked 32-bit ints, so every     *)
(* operator here is written not to overflow while computing the wrapped    *)
(* result.                                                                 *)
(***************************************************************************)
EXTENDS Integers

MAX32 == 2147483647
MIN32 == -2147483647 - 1

IsInt32(x) == x \in Int /\ x >= MIN32 /\ x <= MAX32

\* a + b modulo 2^32, as a signed value
Add32(a, b) ==
  IF a > 0 /\ b > 0 /\ a > MAX32 - b THEN (a + MIN32) + (b + MIN32)          \* a + b - 2^32
  ELSE IF a < 0 /\ b < 0 /\ a < MIN32 - b THEN (a - MIN32) + (b - MIN32)     \* a + b + 2^32
  ELSE a + b

Neg32(a) == IF a = MIN32 THEN MIN32 ELSE 0 - a

Sub32(a, b) == Add32(a, Neg32(b))

\* multiplication by doubling (at most 31 steps); b >= 0
RECURSIVE MulNat(_, _)
MulNat(a, b) ==
  IF b = 0 THEN 0
  ELSE IF b % 2 = 1 THEN Add32(a, MulNat(Add32(a, a), (b - 1) \div 2))
  ELSE MulNat(Add32(a, a), b \div 2)

Mul32(a, b) ==
  IF b = MIN32 THEN (IF a % 2 = 0 THEN 0 ELSE MIN32)        \* a * 2^31 mod 2^32
  ELSE IF b < 0 THEN Neg32(MulNat(a, 0 - b))
  ELSE MulNat(a, b)

Abs(a) == IF a < 0 THEN 0 - a ELSE a      \* only for a # MIN32

\* 2^31 divided by n >= 2 (quotient), without writing 2^31
Pow31Div(n) == (MAX32 \div n) + (IF (MAX32 % n) + 1 = n THEN 1 ELSE 0)

DivUndefined(a, b) == b = 0 \/ (a = MIN32 /\ b = -1)     \* C#: DivideByZeroException / OverflowException

\* truncation toward zero; defined when ~DivUndefined(a, b)
Div32(a, b) ==
  IF b = MIN32 THEN (IF a = MIN32 THEN 1 ELSE 0)
  ELSE IF a = MIN32 THEN (IF b = 1 THEN MIN32
                          ELSE IF b > 0 THEN 0 - Pow31Div(b) ELSE Pow31Div(0 - b))
  ELSE LET q == Abs(a) \div Abs(b) IN
       IF (a < 0) = (b < 0) THEN q ELSE 0 - q

\* remainder with the sign of the dividend: a - b * (a / b)
Mod32(a, b) == Sub32(a, Mul32(b, Div32(a, b)))

=============================================================================
