------------------------------ MODULE InkSemTrace ------------------------------
(***************************************************************************)
(* C01: recorded play-throughs of compiled programs checked against the    *)
(* source-level semantics InkSem.                                          *)
(*                                                                         *)
(* IOEnv.SEM: ndjson, one case per line:                                   *)
(*   [case, prog (the abstract syntax tree, see InkSem), path (the choice  *)
(*    indices taken), turns (what the implementation delivered in each     *)
(*    turn: lines [text, tags], choices [text, tags], status), final       *)
(*    (globals and visit counts at the end of the path)]                   *)
(* The machine of InkSem is stepped statement by statement (one TLC state  *)
(* per step); at the end of every turn its lines, choices and status are   *)
(* compared with the recorded turn, at the end of the path its variables   *)
(* and counts.  A difference is printed ("MISMATCH" with the expected      *)
(* value) and the case abandoned.                                          *)
(***************************************************************************)
EXTENDS Integers, Sequences, FiniteSets, TLC, Json, IOUtils

Cases == ndJsonDeserialize(IOEnv.SEM)

VARIABLES ci,      \* index of the current case
          m,       \* machine state (InkSem), or <<>> before the case starts
          tn,      \* number of the turn being played (1-based)
          steps,   \* steps taken in this case (fuel)
          nbad
vars == <<ci, m, tn, steps, nbad>>

Sem(P) == INSTANCE InkSem WITH Prog <- P
Out == INSTANCE InkOutput

MaxSteps == 4000

\* what the semantics says the host sees at the end of a turn
ExpectedTurn(mm) ==
  [ lines |-> SelectSeq(Out!Lines(mm.out), LAMBDA ln : \E i \in DOMAIN ln.text : ln.text[i] \notin {10, 32, 9}),
    choices |-> LET vis == SelectSeq(mm.ch, LAMBDA c : ~c.fb) IN [i \in 1..Len(vis) |-> [text |-> vis[i].text, tags |-> vis[i].tags]],
    status |-> CASE mm.st = "wait" -> "wait" [] mm.st = "over" -> "over" [] mm.st = "out" -> "error"
                 [] mm.err # "" -> "error" [] OTHER -> mm.st ]

TurnDiff(e, a) ==
  IF e.status # a.status THEN "status"
  ELSE IF e.lines # a.lines THEN "lines"
  ELSE IF e.choices # a.choices THEN "choices"
  ELSE ""

FinalDiff(c, mm) ==
  LET vs == {n \in DOMAIN c.final.vars : n \in DOMAIN mm.vars /\ mm.vars[n] # c.final.vars[n]}
      cs == {n \in DOMAIN c.final.counts : (IF n \in DOMAIN mm.cnt THEN mm.cnt[n] ELSE 0) # c.final.counts[n]} IN
  IF vs # {} THEN "vars:" \o (CHOOSE n \in vs : TRUE)
  ELSE IF cs # {} THEN "counts:" \o (CHOOSE n \in cs : TRUE) ELSE ""

Init == ci = 1 /\ m = <<>> /\ tn = 1 /\ steps = 0 /\ nbad = 0

NextCase == ci' = ci + 1 /\ m' = <<>> /\ tn' = 1 /\ steps' = 0

Fail(rule, detail, expected) ==
  /\ PrintT(<<"MISMATCH", Cases[ci].case, tn, rule, detail, ToJson(expected)>>)
  /\ nbad' = nbad + 1 /\ NextCase

Play ==
  /\ ci <= Len(Cases)
  /\ LET c == Cases[ci]
         P == c.prog IN
     IF m = <<>> THEN m' = Sem(P)!Start /\ UNCHANGED <<ci, tn, steps, nbad>>
     ELSE IF steps > MaxSteps THEN Fail("Sem.fuel", "", <<>>)
     ELSE IF m.st = "run" /\ m.err = "" THEN m' = Sem(P)!StepM(m) /\ steps' = steps + 1 /\ UNCHANGED <<ci, tn, nbad>>
     ELSE IF m.st = "stopping" \/ (m.st = "end" /\ m.err = "") THEN m' = Sem(P)!Settle(m) /\ steps' = steps + 1 /\ UNCHANGED <<ci, tn, nbad>>
     ELSE \* the turn is over: compare
          IF tn > Len(c.turns) THEN Fail("Turn.missing", "", ExpectedTurn(m))
          ELSE LET e == ExpectedTurn(m)
                   d == TurnDiff(e, c.turns[tn]) IN
               IF d # "" THEN Fail("Turn." \o d, "", e)
               ELSE IF tn <= Len(c.path) /\ m.st = "wait"
                    THEN m' = Sem(P)!Choose(m, c.path[tn]) /\ tn' = tn + 1 /\ steps' = steps + 1 /\ UNCHANGED <<ci, nbad>>
               ELSE LET fd == FinalDiff(c, m) IN
                    IF fd # "" THEN Fail("Final", fd, [vars |-> m.vars, counts |-> m.cnt])
                    ELSE NextCase /\ UNCHANGED nbad

Finish ==
  /\ ci = Len(Cases) + 1
  /\ PrintT(<<"CONSUMED", ci - 1, Len(Cases), nbad>>)
  /\ ci' = ci + 1 /\ UNCHANGED <<m, tn, steps, nbad>>

Next == Play \/ Finish

Spec == Init /\ [][Next]_vars
=============================================================================
