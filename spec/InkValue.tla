------------------------------- MODULE InkValue -------------------------------
(***************************************************************************)
(* Values of the Ink language and its native operators, as total           *)
(* functions (DESIGN.md 3.1; properties C07 and the arithmetic of C04).    *)
(* Transcribed from the rules of the reference engine (NativeFunctionCall, *)
(* Value.Cast, InkList), not from the Rust port.                           *)
(*                                                                         *)
(* Values                                                                  *)
(*   [t |-> "bool",  v |-> BOOLEAN]                                        *)
(*   [t |-> "int",   v |-> 32-bit integer]                                 *)
(*   [t |-> "float", n |-> Int, e |-> Nat]   the dyadic rational n / 2^e,  *)
(*                                           normalised (e = 0 or n odd)   *)
(*   [t |-> "str",   v |-> sequence of code points]                        *)
(*   [t |-> "list",  items |-> set of [o |-> list, n |-> item],            *)
(*                   onames |-> origin names kept while the list is empty] *)
(* Results additionally                                                    *)
(*   [t |-> "error",  v |-> kind]    the story reports a runtime error     *)
(*   [t |-> "unspec", v |-> why]     outside the modelled domain (inexact  *)
(*                                   float, infinity, random): no claim    *)
(*   [t |-> "oneof",  v |-> set]     the rules leave a tie open: any       *)
(*                                   member is admissible                  *)
(***************************************************************************)
EXTENDS Integers, Sequences, FiniteSets, Int32

CONSTANT Defs      \* list name -> (item name -> value): the LIST declarations of the story

B(x) == [t |-> "bool", v |-> x]
I(x) == [t |-> "int", v |-> x]
S(x) == [t |-> "str", v |-> x]
L(items, onames) == [t |-> "list", items |-> items, onames |-> onames]
Err(k) == [t |-> "error", v |-> k]
Unspec(k) == [t |-> "unspec", v |-> k]
OneOf(set) == IF Cardinality(set) = 1 THEN CHOOSE x \in set : TRUE ELSE [t |-> "oneof", v |-> set]

IsBad(x) == x.t \in {"error", "unspec"}

(***************************************************************************)
(* Dyadic floats.  Only values that a 32-bit float represents exactly      *)
(* (|n| < 2^24, small exponents) are claimed.                              *)
(***************************************************************************)
RECURSIVE Pow2(_)
Pow2(k) == IF k = 0 THEN 1 ELSE 2 * Pow2(k - 1)

RECURSIVE NormF(_, _)
NormF(n, e) == IF e > 0 /\ n % 2 = 0 THEN NormF(n \div 2, e - 1) ELSE [t |-> "float", n |-> n, e |-> e]

Exact24 == 16777216
AbsI(a) == IF a < 0 THEN 0 - a ELSE a
F(n, e) == IF n >= Exact24 \/ n <= 0 - Exact24 \/ e > 20 THEN Unspec("float precision") ELSE NormF(n, e)

MaxE(a, b) == IF a.e > b.e THEN a.e ELSE b.e
Scaled(a, e) == a.n * Pow2(e - a.e)            \* numerator of a over 2^e (e >= a.e)
\* operands small enough that TLC's own integers do not overflow while aligning exponents
Small(a, b) == AbsI(a.n) < 1000000 /\ AbsI(b.n) < 1000000 /\ MaxE(a, b) <= 10

FAdd(a, b) == IF ~Small(a, b) THEN Unspec("float precision") ELSE F(Scaled(a, MaxE(a, b)) + Scaled(b, MaxE(a, b)), MaxE(a, b))
FSub(a, b) == IF ~Small(a, b) THEN Unspec("float precision") ELSE F(Scaled(a, MaxE(a, b)) - Scaled(b, MaxE(a, b)), MaxE(a, b))
FMul(a, b) == IF AbsI(a.n) > 40000 \/ AbsI(b.n) > 40000 THEN Unspec("float precision") ELSE F(a.n * b.n, a.e + b.e)
FCmp(a, b) == Scaled(a, MaxE(a, b)) - Scaled(b, MaxE(a, b))      \* sign of a - b
\* a / b = (a.n * 2^b.e) / (b.n * 2^a.e): exact when b.n divides a.n * 2^b.e
FDiv(a, b) ==
  IF ~Small(a, b) THEN Unspec("float precision")
  ELSE IF b.n = 0 THEN Unspec("float division by zero")
  ELSE LET num == a.n * Pow2(b.e) IN
       IF AbsI(b.n) = 1 THEN F(num * b.n, a.e)
       ELSE IF num % AbsI(b.n) = 0 THEN F((num \div AbsI(b.n)) * (IF b.n < 0 THEN -1 ELSE 1), a.e)
       ELSE Unspec("inexact quotient")
FTrunc(a) == LET q == AbsI(a.n) \div Pow2(a.e) IN IF a.n < 0 THEN 0 - q ELSE q      \* toward zero
FFloor(a) == IF a.n >= 0 \/ a.e = 0 THEN FTrunc(a) ELSE FTrunc(a) - 1
FCeil(a) == IF a.n <= 0 \/ a.e = 0 THEN FTrunc(a) ELSE FTrunc(a) + 1
FromInt(i) == F(i, 0)

(***************************************************************************)
(* Text: sequences of code points.                                         *)
(***************************************************************************)
RECURSIVE NatChars(_)
NatChars(n) == IF n < 10 THEN <<48 + n>> ELSE Append(NatChars(n \div 10), 48 + (n % 10))
IntChars(i) == IF i = MIN32 THEN <<45, 50, 49, 52, 55, 52, 56, 51, 54, 52, 56>>
               ELSE IF i < 0 THEN <<45>> \o NatChars(0 - i) ELSE NatChars(i)
TrueChars == <<116, 114, 117, 101>>
FalseChars == <<102, 97, 108, 115, 101>>

Contains(s, sub) == \E k \in 0..(Len(s) - Len(sub)) : SubSeq(s, k + 1, k + Len(sub)) = sub

(***************************************************************************)
(* Lists                                                                   *)
(***************************************************************************)
ItemVal(it) == Defs[it.o][it.n]
AllOf(o) == {[o |-> o, n |-> n] : n \in DOMAIN Defs[o]}
Eff(l) == IF l.items # {} THEN {it.o : it \in l.items} ELSE l.onames       \* effective origin names
MinVal(l) == CHOOSE v \in {ItemVal(it) : it \in l.items} : \A it \in l.items : v <= ItemVal(it)
MaxVal(l) == CHOOSE v \in {ItemVal(it) : it \in l.items} : \A it \in l.items : v >= ItemVal(it)
Single(it) == L({it}, {})

LUnion(a, b) == L(a.items \cup b.items, Eff(a))
LWithout(a, b) == L(a.items \ b.items, Eff(a))
LIntersect(a, b) == L(a.items \cap b.items, {})
LContains(a, b) == a.items # {} /\ b.items # {} /\ b.items \subseteq a.items
LGreater(a, b) == IF a.items = {} THEN FALSE ELSE IF b.items = {} THEN TRUE ELSE MinVal(a) > MaxVal(b)
LGreaterEq(a, b) == IF a.items = {} THEN FALSE ELSE IF b.items = {} THEN TRUE
                    ELSE MinVal(a) >= MinVal(b) /\ MaxVal(a) >= MaxVal(b)
LLess(a, b) == IF b.items = {} THEN FALSE ELSE IF a.items = {} THEN TRUE ELSE MaxVal(a) < MinVal(b)
LLessEq(a, b) == IF b.items = {} THEN FALSE ELSE IF a.items = {} THEN TRUE
                 ELSE MaxVal(a) <= MaxVal(b) /\ MinVal(a) <= MinVal(b)
LAll(a) == L(UNION {AllOf(o) : o \in Eff(a) \cap DOMAIN Defs}, {})
LInvert(a) == L(UNION {AllOf(o) : o \in Eff(a) \cap DOMAIN Defs} \ a.items, {})
\* items moved by n places of VALUE inside their own list
LShift(a, n) == L({it2 \in UNION {AllOf(it.o) : it \in a.items} :
                     \E it \in a.items : it2.o = it.o /\ ItemVal(it2) - ItemVal(it) = n}, {})      \* (n may be any 32-bit value)
\* minimum / maximum as a one-item list; items of different lists may share the extreme value
LMin(a) == IF a.items = {} THEN L({}, {}) ELSE OneOf({Single(it) : it \in {x \in a.items : ItemVal(x) = MinVal(a)}})
LMax(a) == IF a.items = {} THEN L({}, {}) ELSE OneOf({Single(it) : it \in {x \in a.items : ItemVal(x) = MaxVal(a)}})
LValue(a) == IF a.items = {} THEN 0 ELSE MaxVal(a)
LRange(a, lo, hi) == L({it \in a.items : ItemVal(it) >= lo /\ ItemVal(it) <= hi}, Eff(a))

(***************************************************************************)
(* Coercion: bool < int < float < list < string.  Binary operators bring   *)
(* both operands to the higher of the two types (at least int).            *)
(***************************************************************************)
Rank(x) == CASE x.t = "bool" -> 0 [] x.t = "int" -> 1 [] x.t = "float" -> 2 [] x.t = "list" -> 3 [] x.t = "str" -> 4

Truthy(x) == CASE x.t = "bool" -> x.v [] x.t = "int" -> x.v # 0 [] x.t = "float" -> x.n # 0
               [] x.t = "str" -> x.v # <<>> [] x.t = "list" -> x.items # {}

CastTo(x, r) ==
  IF Rank(x) = r THEN x
  ELSE CASE x.t = "bool" /\ r = 1 -> I(IF x.v THEN 1 ELSE 0)
         [] x.t = "bool" /\ r = 2 -> FromInt(IF x.v THEN 1 ELSE 0)
         [] x.t = "bool" /\ r = 4 -> S(IF x.v THEN TrueChars ELSE FalseChars)
         [] x.t = "int" /\ r = 2 -> FromInt(x.v)
         [] x.t = "int" /\ r = 4 -> S(IntChars(x.v))
         [] x.t = "float" /\ r = 4 -> Unspec("float to text")
         [] OTHER -> Err("cast")

(***************************************************************************)
(* Operators on operands of one type                                       *)
(***************************************************************************)
IntOp(op, a, b) ==
  CASE op = "+" -> I(Add32(a, b)) [] op = "-" -> I(Sub32(a, b)) [] op = "*" -> I(Mul32(a, b))
    [] op = "/" -> IF DivUndefined(a, b) THEN Err("division") ELSE I(Div32(a, b))
    [] op = "%" -> IF b = 0 THEN Err("division") ELSE IF a = MIN32 /\ b = -1 THEN Unspec("MIN % -1") ELSE I(Mod32(a, b))
    [] op = "==" -> B(a = b) [] op = "!=" -> B(a # b) [] op = "<" -> B(a < b) [] op = ">" -> B(a > b)
    [] op = "<=" -> B(a <= b) [] op = ">=" -> B(a >= b)
    [] op = "&&" -> B(a # 0 /\ b # 0) [] op = "||" -> B(a # 0 \/ b # 0)
    [] op = "MIN" -> I(IF a < b THEN a ELSE b) [] op = "MAX" -> I(IF a > b THEN a ELSE b)
    [] op = "POW" -> IF b >= 0 /\ b <= 5 /\ a >= -16 /\ a <= 16 THEN
                        FromInt(CASE b = 0 -> 1 [] b = 1 -> a [] b = 2 -> a * a [] b = 3 -> a * a * a
                                  [] b = 4 -> a * a * a * a [] b = 5 -> a * a * a * a * a)
                     ELSE Unspec("POW")
    [] OTHER -> Err("operator not available for int")

FloatOp(op, a, b) ==
  IF ~Small(a, b) THEN Unspec("float precision") ELSE
  CASE op = "+" -> FAdd(a, b) [] op = "-" -> FSub(a, b) [] op = "*" -> FMul(a, b) [] op = "/" -> FDiv(a, b)
    [] op = "%" -> Unspec("float remainder")
    [] op = "==" -> B(FCmp(a, b) = 0) [] op = "!=" -> B(FCmp(a, b) # 0) [] op = "<" -> B(FCmp(a, b) < 0)
    [] op = ">" -> B(FCmp(a, b) > 0) [] op = "<=" -> B(FCmp(a, b) <= 0) [] op = ">=" -> B(FCmp(a, b) >= 0)
    [] op = "&&" -> B(a.n # 0 /\ b.n # 0) [] op = "||" -> B(a.n # 0 \/ b.n # 0)
    [] op = "MIN" -> IF FCmp(a, b) < 0 THEN a ELSE b [] op = "MAX" -> IF FCmp(a, b) > 0 THEN a ELSE b
    [] op = "POW" -> Unspec("POW")
    [] OTHER -> Err("operator not available for float")

StrOp(op, a, b) ==
  CASE op = "+" -> S(a \o b) [] op = "==" -> B(a = b) [] op = "!=" -> B(a # b)
    [] op = "?" -> B(Contains(a, b)) [] op = "!?" -> B(~Contains(a, b))
    [] OTHER -> Err("operator not available for string")

ListOp(op, a, b) ==
  CASE op = "+" -> LUnion(a, b) [] op = "-" -> LWithout(a, b) [] op = "^" -> LIntersect(a, b)
    [] op = "?" -> B(LContains(a, b)) [] op = "!?" -> B(~LContains(a, b))
    [] op = "==" -> B(a.items = b.items) [] op = "!=" -> B(a.items # b.items)
    [] op = ">" -> B(LGreater(a, b)) [] op = "<" -> B(LLess(a, b))
    [] op = ">=" -> B(LGreaterEq(a, b)) [] op = "<=" -> B(LLessEq(a, b))
    [] op = "&&" -> B(a.items # {} /\ b.items # {}) [] op = "||" -> B(a.items # {} \/ b.items # {})
    [] OTHER -> Err("operator not available for list")

(***************************************************************************)
(* The native call                                                         *)
(***************************************************************************)
Max2(a, b) == IF a > b THEN a ELSE b

Binary(op, x, y) ==
  IF x.t = "oneof" \/ y.t = "oneof" THEN Unspec("tie in an operand")
  ELSE IF IsBad(x) THEN x ELSE IF IsBad(y) THEN y
  ELSE IF x.t = "list" \/ y.t = "list" THEN
         \* binary operations with a list are outside the coercion ladder
         IF op = "-" /\ x.t = "list" /\ y.t = "int" /\ y.v = MIN32 THEN Unspec("list - MIN32")      \* (the negation has no 32-bit value)
         ELSE IF op \in {"+", "-"} /\ x.t = "list" /\ y.t = "int" THEN LShift(x, IF op = "+" THEN y.v ELSE 0 - y.v)
         ELSE IF op \in {"&&", "||"} /\ (x.t # "list" \/ y.t # "list") THEN
                 B(IF op = "&&" THEN Truthy(x) /\ Truthy(y) ELSE Truthy(x) \/ Truthy(y))
         ELSE IF x.t = "list" /\ y.t = "list" THEN ListOp(op, x, y)
         ELSE Err("list with non-list")
  ELSE LET r == Max2(Max2(Rank(x), Rank(y)), 1)
           a == CastTo(x, r)
           b == CastTo(y, r) IN
       IF IsBad(a) THEN a ELSE IF IsBad(b) THEN b
       ELSE CASE r = 1 -> IntOp(op, a.v, b.v) [] r = 2 -> FloatOp(op, a, b) [] r = 4 -> StrOp(op, a.v, b.v)

Unary(op, x) ==
  IF x.t = "oneof" THEN Unspec("tie in the operand")
  ELSE IF IsBad(x) THEN x
  ELSE IF x.t = "list" THEN
         CASE op = "!" -> I(IF x.items = {} THEN 1 ELSE 0)
           [] op = "LIST_COUNT" -> I(Cardinality(x.items)) [] op = "LIST_VALUE" -> I(LValue(x))
           [] op = "LIST_MIN" -> LMin(x) [] op = "LIST_MAX" -> LMax(x)
           [] op = "LIST_ALL" -> LAll(x) [] op = "LIST_INVERT" -> LInvert(x)
           [] OTHER -> Err("operator not available for list")
  ELSE IF x.t = "str" THEN Err("operator not available for string")
  ELSE LET a == CastTo(x, Max2(Rank(x), 1)) IN
       IF a.t = "int" THEN
         CASE op = "_" -> I(Neg32(a.v)) [] op = "!" -> B(a.v = 0)
           [] op = "FLOOR" -> a [] op = "CEILING" -> a [] op = "INT" -> a [] op = "FLOAT" -> FromInt(a.v)
           [] OTHER -> Err("operator not available for int")
       ELSE
         CASE op = "_" -> F(0 - a.n, a.e) [] op = "!" -> B(a.n = 0)
           [] op = "FLOOR" -> FromInt(FFloor(a)) [] op = "CEILING" -> FromInt(FCeil(a))
           [] op = "INT" -> I(FTrunc(a)) [] op = "FLOAT" -> a
           [] OTHER -> Err("operator not available for float")

\* LIST_RANGE(list, lo, hi): the bounds are ints or list items (then their value counts)
BoundOf(x) == IF x.t = "int" THEN x.v ELSE IF x.t = "list" THEN LValue(x) ELSE 0
Range(l, lo, hi) == IF l.t # "list" THEN Err("LIST_RANGE of non-list")
                    ELSE IF lo.t \notin {"int", "list"} \/ hi.t \notin {"int", "list"} THEN Err("LIST_RANGE bounds")
                    ELSE LRange(l, BoundOf(lo), BoundOf(hi))

=============================================================================
