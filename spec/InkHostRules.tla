---------------------------- MODULE InkHostRules ----------------------------
(***************************************************************************)
(* Callback rules of the host protocol, stated over one recorded call:     *)
(*   C11  observers see each committed change once, with the final value   *)
(*   C12  external functions: exactly-once / at-least-once and timing      *)
(*   C13  every error and warning is delivered exactly once                *)
(* Each rule yields "" (satisfied) or the name of the clause that failed.   *)
(*                                                                         *)
(* An event e carries: cbs, the callbacks in order, each                   *)
(*   [k |-> "obs", o, var, val] | [k |-> "ext", ...] | [k |-> "msg", ...]; *)
(* vm, the globals after the call (name -> value id); ext, per external    *)
(* function the number of callbacks in this call; msgs, the (type, text)   *)
(* ids handed to the error handler in this call.  The state s before the   *)
(* call carries watch, vm and calls (InkHostAbs).                          *)
(***************************************************************************)
EXTENDS Naturals, Sequences, FiniteSets

Idx(seq, P(_)) == {i \in DOMAIN seq : P(seq[i])}

Notifs(e) == Idx(e.cbs, LAMBDA c : c.k = "obs")
Exts(e)   == Idx(e.cbs, LAMBDA c : c.k = "ext")

CountFor(e, o, v) == Cardinality({i \in Notifs(e) : e.cbs[i].o = o /\ e.cbs[i].var = v})

Changed(s, e, v) == v \in DOMAIN s.vm /\ v \in DOMAIN e.vm /\ s.vm[v] # e.vm[v]

\* C11, for a completed outermost continue that returned Ok
ContNotifyRule(s, e) ==
  IF \E i \in Notifs(e) : <<e.cbs[i].o, e.cbs[i].var>> \notin s.watch THEN "Notify.unregistered"
  ELSE IF \E p \in s.watch : CountFor(e, p[1], p[2]) > 1 THEN "Notify.twice"
  ELSE IF \E p \in s.watch : Changed(s, e, p[2]) /\ CountFor(e, p[1], p[2]) = 0 THEN "Notify.missing"
  ELSE IF \E i \in Notifs(e) : e.cbs[i].var \in DOMAIN e.vm /\ e.cbs[i].val # e.vm[e.cbs[i].var] THEN "Notify.stale"
  ELSE IF \E i \in Notifs(e), j \in Exts(e) : j > i THEN "Notify.early"
  ELSE ""

\* C11, for a host assignment between continues: one immediate notification per watcher of that variable
SetVarNotifyRule(s, e) ==
  IF \E i \in Notifs(e) : e.cbs[i].var # e.wv \/ <<e.cbs[i].o, e.wv>> \notin s.watch THEN "Notify.unregistered"
  ELSE IF \E p \in s.watch : p[2] = e.wv /\ CountFor(e, p[1], p[2]) # 1 THEN "Notify.setvar"
  ELSE IF \E i \in Notifs(e) : e.cbs[i].val # e.vm[e.wv] THEN "Notify.stale"
  ELSE ""

\* C12: cumulative number of host calls against the number of executed calls of the reference run
ExtCountRule(s, e, refcnt, mode) ==
  LET tot(f) == (IF f \in DOMAIN s.calls THEN s.calls[f] ELSE 0) + (IF f \in DOMAIN e.ext THEN e.ext[f] ELSE 0) IN
  IF mode = "unsafe" /\ \E i \in Exts(e) : ~e.cbs[i].seen THEN "Ext.before_preceding_line"
  ELSE IF mode = "unsafe" /\ \E f \in DOMAIN refcnt : tot(f) # refcnt[f] THEN "Ext.exactly_once"
  ELSE IF mode = "safe" /\ \E f \in DOMAIN refcnt : tot(f) < refcnt[f] THEN "Ext.at_least_once"
  ELSE IF mode = "never" /\ \E f \in DOMAIN e.ext : e.ext[f] > 0 THEN "Ext.called_in_string"
  ELSE ""

\* C13: what the handler received in this continue = the messages the reference run raised in it, plus those
\* raised earlier outside any continue; each exactly once (as a bag: the statement fixes no order)
CountIn(seq, x) == Cardinality({i \in DOMAIN seq : seq[i] = x})
SameBag(a, b) == \A x \in {a[i] : i \in DOMAIN a} \cup {b[i] : i \in DOMAIN b} : CountIn(a, x) = CountIn(b, x)
\* a line that reads a temporary whose declaration was never executed carries a marker word: by the time the host
\* has that line, it has been told - through the handler, the error result or the readable lists - about that temporary
\* (an absolute rule: a warning lost in every run of the build is invisible to a comparison between runs)
Raised(s, e) == \A i \in DOMAIN e.marks : e.marks[i] \in s.warned \cup {e.wvars[j] : j \in DOMAIN e.wvars}
MsgRule(s, e, refnew) ==
  IF e.op \in {"cont", "turn"} /\ ~Raised(s, e) THEN "Msgs.warning_never_raised"
  ELSE IF e.op = "cont" THEN (IF SameBag(e.msgs, s.pmsgs \o refnew) THEN "" ELSE "Msgs.delivery")
  ELSE IF e.msgs # <<>> THEN "Msgs.delivery_outside_continue" ELSE ""

\* C13 without a handler: an error makes that continue return Err, stays readable and stops the story; a
\* warning never causes Err and is readable afterwards; nothing is handed to a handler that is not there
NoHandlerRule(s, e, ref) ==
  LET newerr == e.o.nerr > s.last.nerr
      newwarn == e.o.nwarn > s.last.nwarn IN
  IF e.op \in {"cont", "turn"} /\ ~Raised(s, e) THEN "Msgs.warning_never_raised"
  ELSE IF e.msgs # <<>> THEN "Msgs.no_handler_delivery"
  ELSE IF e.op = "cont" /\ newerr /\ e.res # "err" THEN "Msgs.error_not_reported"
  ELSE IF e.op = "cont" /\ ~newerr /\ s.last.nerr = 0 /\ e.res = "err" /\ s.last.canB THEN "Msgs.err_without_error"
  ELSE IF e.o.nerr < s.last.nerr THEN "Msgs.error_forgotten"
  ELSE IF e.o.nerr > 0 /\ e.o.canB THEN "Msgs.error_does_not_stop"
  ELSE IF newwarn /\ e.o.nwarn # s.last.nwarn + Len(ref.newmsgs) - (e.o.nerr - s.last.nerr) THEN "Msgs.warning_lost"
  ELSE ""

\* all callback rules enabled by the case configuration c; ref is the reference observation after the call
CallbackRulesOn(s, e, ref, c) ==
  LET r11 == IF c.chk11 /\ e.op = "cont" /\ e.res = "ok" THEN ContNotifyRule(s, e) ELSE ""
      r12 == IF c.chk12 # "" THEN ExtCountRule(s, e, ref.cnt, c.chk12) ELSE ""
      r13 == IF c.chk13 = "handler" THEN MsgRule(s, e, ref.newmsgs)
             ELSE IF c.chk13 = "nohandler" THEN NoHandlerRule(s, e, ref) ELSE "" IN
  IF r11 # "" THEN r11 ELSE IF r12 # "" THEN r12 ELSE r13

=============================================================================
