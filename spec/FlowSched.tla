------------------------------ MODULE FlowSched ------------------------------
(***************************************************************************)
(* TLC as enumerator of schedules (DESIGN.md 5/C10): all interleavings of  *)
(* the host operations of several flows, each flow's own order preserved.  *)
(* Every complete schedule is printed once; the harness replays each on    *)
(* the real runtime and InkHostTrace validates the recorded run against    *)
(* the per-flow positions of InkHostAbs.                                   *)
(***************************************************************************)
EXTENDS Naturals, Sequences, FiniteSets, TLC

CONSTANTS NA, NB, ND      \* number of operations of flow A, flow B and the default flow

VARIABLES done, sched
vars == <<done, sched>>

Flows == {"A", "B", "D"}
Ops(f) == CASE f = "A" -> NA [] f = "B" -> NB [] OTHER -> ND

Init == done = [f \in Flows |-> 0] /\ sched = <<>>

Step(f) == /\ done[f] < Ops(f)
           /\ done' = [done EXCEPT ![f] = @ + 1]
           /\ sched' = Append(sched, f)

Next == \E f \in Flows : Step(f)

Spec == Init /\ [][Next]_vars

Complete == \A f \in Flows : done[f] = Ops(f)

\* "invariant" used only for its side effect: one line per complete schedule
Emit == Complete => PrintT(<<"SCHED", sched>>)

\* each flow's operations occur in order and exactly once (sanity of the enumerator)
Wellformed == \A f \in Flows : Cardinality({i \in DOMAIN sched : sched[i] = f}) = done[f]
=============================================================================
