----------------------------- MODULE InkLookTrace -----------------------------
(***************************************************************************)
(* C01, line by line: every `cont` of recorded plays checked against the   *)
(* look-ahead mechanism InkLook, and InkLook checked against the semantics *)
(* without look-ahead (InkSem) at the end of every turn.                   *)
(*                                                                         *)
(* IOEnv.LOOK: ndjson, one case per line:                                  *)
(*   [case, prog, path, turns: per turn the sequence of cont records       *)
(*    [text, tags, can, choices (texts), vars (int / bool / string globals)]]*)
(* One TLC state per iteration of the engine's continue loop and per       *)
(* statement of the reference run.                                         *)
(*   Cont.*    the real engine's cont differs from the mechanism model     *)
(*   Design.*  the mechanism model differs from the semantics without      *)
(*             look-ahead (a defect of the look-ahead DESIGN: found by TLC *)
(*             without running any code)                                   *)
(***************************************************************************)
EXTENDS Integers, Sequences, FiniteSets, TLC, Json, IOUtils

Cases == ndJsonDeserialize(IOEnv.LOOK)

VARIABLES ci, e, n, tn, k, ph, acc, steps, nbad
vars == <<ci, e, n, tn, k, ph, acc, steps, nbad>>

Look(P) == INSTANCE InkLook WITH Prog <- P
Sem(P) == INSTANCE InkSem WITH Prog <- P
Out == INSTANCE InkOutput

MaxSteps == 6000

NonEmpty(lines) == SelectSeq(lines, LAMBDA ln : \E i \in DOMAIN ln.text : ln.text[i] \notin {10, 32, 9})

Init == ci = 1 /\ e = <<>> /\ n = <<>> /\ tn = 1 /\ k = 1 /\ ph = "init" /\ acc = <<>> /\ steps = 0 /\ nbad = 0

NextCase == ci' = ci + 1 /\ e' = <<>> /\ n' = <<>> /\ tn' = 1 /\ k' = 1 /\ ph' = "init" /\ acc' = <<>> /\ steps' = 0

Fail(rule, detail, expected) ==
  /\ PrintT(<<"MISMATCH", Cases[ci].case, tn, rule, detail, ToJson(expected)>>)
  /\ nbad' = nbad + 1 /\ NextCase

\* globals of the model that the record reports, where they differ
VarDiff(rec, m) ==
  {v \in DOMAIN rec.vars : v \in DOMAIN m.vars /\ m.vars[v] # rec.vars[v]}

ContDiff(seen, rec, m) ==
  IF seen.text # rec.text THEN "text"
  ELSE IF seen.tags # rec.tags THEN "tags"
  ELSE IF seen.can # rec.can THEN "can"
  ELSE IF ~seen.can /\ seen.choices # rec.choices THEN "choices"
  ELSE IF VarDiff(rec, m) # {} THEN "vars:" \o (CHOOSE v \in VarDiff(rec, m) : TRUE)
  ELSE ""

\* the calls of external functions the host received during the cont, in order, with their arguments
CallsDiff(rec, log) == IF rec.calls # log THEN "external calls" ELSE ""

\* the save document taken after the cont against the machine (records without a save carry sv = <<>>)
SaveDiff(P, rec, m) ==
  IF rec.sv = <<>> THEN ""
  ELSE LET v == Look(P)!SaveView(m)
           bad == {f \in {"turn", "vars", "counts", "threads", "stream", "choices"} : v[f] # rec.sv[f]} IN
       IF bad = {} THEN "" ELSE "save:" \o (CHOOSE f \in bad : TRUE)

\* the reference run of the turn is over
Settled(m) == m.err # "" \/ m.st \in {"wait", "over", "out"}

DesignDiff(P, m, r, lines) ==
  IF NonEmpty(Out!Lines(r.out)) # NonEmpty(lines) THEN "lines"
  ELSE IF m.vars # r.vars THEN "vars"
  ELSE IF m.cnt # r.cnt THEN "counts"
  ELSE IF m.tof # r.tof THEN "turn indices"
  ELSE IF m.seqc # r.seqc THEN "sequence counters"
  ELSE IF m.st # r.st THEN "status"
  ELSE IF [i \in 1..Len(m.ch) |-> <<m.ch[i].text, m.ch[i].tags>>] # [i \in 1..Len(r.ch) |-> <<r.ch[i].text, r.ch[i].tags>>] THEN "choices"
  ELSE ""

Play ==
  /\ ci <= Len(Cases)
  /\ LET c == Cases[ci]
         P == c.prog IN
     IF steps > MaxSteps THEN Fail("Look.fuel", "", <<>>)
     ELSE CASE ph = "init" ->
               /\ e' = Look(P)!Engine(Sem(P)!Start) /\ n' = Sem(P)!Start /\ ph' = "begin"
               /\ UNCHANGED <<ci, tn, k, acc, steps, nbad>>
          [] ph = "begin" ->
               /\ e' = Look(P)!BeginCont(e) /\ ph' = "loop" /\ UNCHANGED <<ci, n, tn, k, acc, steps, nbad>>
          [] ph = "loop" ->
               LET r == Look(P)!SingleStep(e) IN
               /\ e' = [m |-> r.m, snap |-> r.snap, log |-> r.log]
               /\ ph' = IF Look(P)!LoopOver(r) THEN "end" ELSE "loop"
               /\ steps' = steps + 1 /\ UNCHANGED <<ci, n, tn, k, acc, nbad>>
          [] ph = "end" ->
               LET e1 == Look(P)!EndCont(e)
                   seen == Look(P)!Seen(e1) IN
               IF tn > Len(c.turns) \/ k > Len(c.turns[tn]) THEN Fail("Cont.extra", "", seen)
               ELSE LET d0 == ContDiff(seen, c.turns[tn][k], e1.m)
                        d1 == IF d0 # "" THEN d0 ELSE CallsDiff(c.turns[tn][k], e1.log)
                        d == IF d1 # "" THEN d1 ELSE SaveDiff(P, c.turns[tn][k], e1.m) IN
                    IF d # "" THEN Fail("Cont." \o d, "", [seen |-> seen, vars |-> e1.m.vars, calls |-> e1.log, save |-> Look(P)!SaveView(e1.m)])
                    ELSE /\ e' = e1 /\ k' = k + 1
                         /\ acc' = Append(acc, [text |-> seen.text, tags |-> seen.tags])
                         /\ ph' = IF seen.can THEN "begin" ELSE "ref"
                         /\ UNCHANGED <<ci, n, tn, steps, nbad>>
          [] ph = "ref" ->
               IF ~Settled(n)
               THEN /\ n' = IF n.st = "run" THEN Sem(P)!StepM(n) ELSE Sem(P)!Settle(n)
                    /\ steps' = steps + 1 /\ UNCHANGED <<ci, e, tn, k, ph, acc, nbad>>
               ELSE IF k - 1 # Len(c.turns[tn]) THEN Fail("Cont.missing", "", [delivered |-> k - 1])
               ELSE LET d == DesignDiff(P, e.m, n, acc) IN
                    IF d # "" THEN Fail("Design." \o d, "", [lookahead |-> [lines |-> acc, vars |-> e.m.vars, cnt |-> e.m.cnt],
                                                           plain |-> [lines |-> Out!Lines(n.out), vars |-> n.vars, cnt |-> n.cnt]])
                    ELSE IF tn <= Len(c.path) /\ n.st = "wait"
                         THEN /\ e' = [m |-> Sem(P)!Choose(e.m, c.path[tn]), snap |-> <<>>, log |-> <<>>]
                              /\ n' = Sem(P)!Choose(n, c.path[tn])
                              /\ tn' = tn + 1 /\ k' = 1 /\ acc' = <<>> /\ ph' = "begin"
                              /\ UNCHANGED <<ci, steps, nbad>>
                         ELSE NextCase /\ UNCHANGED nbad

Finish ==
  /\ ci = Len(Cases) + 1
  /\ PrintT(<<"CONSUMED", ci - 1, Len(Cases), nbad>>)
  /\ ci' = ci + 1 /\ UNCHANGED <<e, n, tn, k, ph, acc, steps, nbad>>

Next == Play \/ Finish

Spec == Init /\ [][Next]_vars
=============================================================================
