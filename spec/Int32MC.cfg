INIT Init
NEXT Next
INVARIANT Laws
CHECK_DEADLOCK FALSE
