------------------------------- MODULE InkOutput -------------------------------
(***************************************************************************)
(* The output stream of Ink (DESIGN.md 3.1): what happens when a piece of  *)
(* content is appended — glue, newline suppression, function-start         *)
(* trimming — and how the stream is read back as text, lines and tags.     *)
(* These rules are the same whether or not the engine looks ahead; they    *)
(* are used by the source-level semantics InkSem (which never looks ahead)  *)
(* and by the mechanism model of the host protocol.                        *)
(*                                                                         *)
(* Items:  [k |-> "t",   v |-> chars]   text (never contains a newline)    *)
(*         [k |-> "nl"]                 newline                            *)
(*         [k |-> "glue"]                                                  *)
(*         [k |-> "tag", v |-> chars]   a complete tag (begin..end)        *)
(*         [k |-> "bs"]                 begin of a string evaluation       *)
(***************************************************************************)
EXTENDS Naturals, Integers, Sequences

T(v) == [k |-> "t", v |-> v]
NL == [k |-> "nl"]
GLUE == [k |-> "glue"]
TAG(v) == [k |-> "tag", v |-> v]

IsWsChar(c) == c = 32 \/ c = 9
IsWs(chars) == \A i \in DOMAIN chars : IsWsChar(chars[i])         \* also true for the empty text
IsTextual(it) == it.k = "t" \/ it.k = "nl"
\* "commit": a line end that can no longer be taken back (see InkSem!ExtCall): nothing is trimmed across it
IsControl(it) == it.k = "tag" \/ it.k = "bs" \/ it.k = "commit"
NonWs(it) == it.k = "t" /\ ~IsWs(it.v)

Last(seq) == seq[Len(seq)]
Front(seq) == SubSeq(seq, 1, Len(seq) - 1)

\* scanning back from the end: does the stream end in a newline (only whitespace after it)?
RECURSIVE EndsInNewline(_)
EndsInNewline(out) ==
  IF out = <<>> THEN FALSE
  ELSE LET it == Last(out) IN
       IF IsControl(it) THEN FALSE
       ELSE IF it.k = "nl" THEN TRUE
       ELSE IF NonWs(it) THEN FALSE
       ELSE EndsInNewline(Front(out))

ContainsContent(out) == \E i \in DOMAIN out : IsTextual(out[i])

\* The engine keeps one stream per LINE: a newline followed by real text or a tag ends the line, and the next line
\* starts on an empty stream.  The semantics keeps one stream per turn; the part of it that the engine's rules look
\* at is the current line: everything after the last newline that has been followed by real text or a tag.
IsContent(it) == NonWs(it) \/ it.k = "tag" \/ it.k = "commit"
LastContent(out) == IF \E i \in DOMAIN out : IsContent(out[i]) THEN CHOOSE i \in DOMAIN out : IsContent(out[i]) /\ \A j \in DOMAIN out : IsContent(out[j]) => j <= i ELSE 0
CurrentLine(out) ==
  LET c == LastContent(out)
      nls == {i \in 1..c : out[i].k = "nl"} IN
  IF nls = {} THEN out ELSE SubSeq(out, (CHOOSE i \in nls : \A j \in nls : j <= i) + 1, Len(out))

\* a newline is dropped when it would end an empty line: the current line ends in a newline already, or holds no
\* string at all (the text of a tag counts as a string here: a line that is only a tag does get its newline)
HoldsStrings(line) == \E i \in DOMAIN line : line[i].k \in {"t", "nl", "tag"}
DropNewline(out) == LET line == CurrentLine(out) IN EndsInNewline(line) \/ ~HoldsStrings(line)

\* index of the glue that is still "open" (no string start after it), 0 if none
RECURSIVE GlueIndex(_)
GlueIndex(out) ==
  IF out = <<>> THEN 0
  ELSE IF Last(out).k = "bs" THEN 0
  ELSE IF Last(out).k = "glue" THEN Len(out)
  ELSE GlueIndex(Front(out))

\* new glue: remove the newline(s) and whitespace at the end of the stream, back to the last real text
RECURSIVE TrimFrom(_)
TrimFrom(out) ==        \* smallest index i such that out[i..] is a run of whitespace starting with a newline; 0 if none
  IF out = <<>> THEN 0
  ELSE LET it == Last(out) IN
       IF IsControl(it) \/ NonWs(it) THEN 0
       ELSE LET below == TrimFrom(Front(out)) IN
            IF it.k = "nl" THEN (IF below # 0 THEN below ELSE Len(out))
            ELSE below        \* glue or whitespace text: keep looking
\* (the engine works back to the FIRST newline of the trailing whitespace run and removes every text item from there)
TrimNewlines(out) ==
  LET from == TrimFrom(out) IN
  IF from = 0 THEN out
  ELSE SubSeq(out, 1, from - 1) \o SelectSeq(SubSeq(out, from, Len(out)), LAMBDA it : ~IsTextual(it))

\* real text arrived after glue: the glue has done its work
RECURSIVE RemoveGlue(_)
RemoveGlue(out) ==
  IF out = <<>> THEN <<>>
  ELSE IF IsControl(Last(out)) THEN out
  ELSE IF Last(out).k = "glue" THEN RemoveGlue(Front(out))
  ELSE Append(RemoveGlue(Front(out)), Last(out))

\* append one item; fnStart = index from which an active function call trims leading whitespace (0: none)
\* result: [out, fnDone]  (fnDone: function-start trimming has seen real text and is over)
Push(out, it, fnStart) ==
  IF it.k = "glue" THEN [out |-> Append(TrimNewlines(out), it), fnDone |-> FALSE]
  ELSE IF it.k = "tag" THEN
       \* (in the engine's stream a tag is its text between two markers: that text is real text as far as the trimming at
       \* the start of a function is concerned - it ends it; glue is not affected, the marker shields it)
       [out |-> Append(out, it), fnDone |-> fnStart # 0 /\ ~IsWs(it.v)]
  ELSE IF ~IsTextual(it) THEN [out |-> Append(out, it), fnDone |-> FALSE]
  ELSE LET g == GlueIndex(out)
           trim == g # 0 \/ fnStart # 0 IN
       IF trim THEN
            IF it.k = "nl" THEN [out |-> out, fnDone |-> FALSE]
            ELSE IF NonWs(it) THEN [out |-> Append(IF g # 0 THEN RemoveGlue(out) ELSE out, it), fnDone |-> fnStart # 0]
            ELSE [out |-> Append(out, it), fnDone |-> FALSE]
       ELSE IF it.k = "nl" /\ DropNewline(out) THEN [out |-> out, fnDone |-> FALSE]
       ELSE [out |-> Append(out, it), fnDone |-> FALSE]

\* at the end of a function call: whitespace and newlines produced at its end are dropped
RECURSIVE TrimFunctionEnd(_, _)
TrimFunctionEnd(out, start) ==
  IF Len(out) < start \/ out = <<>> THEN out
  ELSE LET it == Last(out) IN
       IF IsControl(it) THEN out
       ELSE IF it.k = "nl" \/ (it.k = "t" /\ IsWs(it.v)) THEN TrimFunctionEnd(Front(out), start)
       ELSE IF it.k = "glue" THEN Append(TrimFunctionEnd(Front(out), start), it)
       ELSE out

(***************************************************************************)
(* Reading the stream back                                                 *)
(***************************************************************************)
\* whitespace cleaning of a text: leading whitespace of every line dropped, runs of spaces and tabs inside a line
\* become one space, whitespace before a newline and at the end of the text dropped
RECURSIVE CleanWsFrom(_, _, _, _)
CleanWsFrom(chars, i, pendingWs, atLineStart) ==
  IF i > Len(chars) THEN <<>>
  ELSE LET c == chars[i] IN
       IF IsWsChar(c) THEN CleanWsFrom(chars, i + 1, TRUE, atLineStart)
       ELSE IF c = 10 THEN <<10>> \o CleanWsFrom(chars, i + 1, FALSE, TRUE)
       ELSE (IF pendingWs /\ ~atLineStart THEN <<32, c>> ELSE <<c>>) \o CleanWsFrom(chars, i + 1, FALSE, FALSE)
CleanWs(chars) == CleanWsFrom(chars, 1, FALSE, TRUE)

RECURSIVE Flatten(_)
Flatten(out) ==       \* the characters of the stream (tags excluded)
  IF out = <<>> THEN <<>>
  ELSE LET it == Head(out) IN
       (IF it.k = "t" THEN it.v ELSE IF it.k = "nl" THEN <<10>> ELSE <<>>) \o Flatten(Tail(out))

CurrentText(out) == CleanWs(Flatten(out))

\* the lines of a finished turn, as the host receives them one continue at a time:
\* [text |-> chars incl. the final newline, tags |-> Seq(chars)]; a tag belongs to the line being built when it occurs
RECURSIVE LinesFrom(_, _, _)
LinesFrom(out, cur, tags) ==
  IF out = <<>> THEN
     (IF CleanWs(cur) # <<>> \/ tags # <<>> THEN <<[text |-> CleanWs(cur), tags |-> tags]>> ELSE <<>>)
  ELSE LET it == Head(out) IN
       IF it.k = "t" THEN LinesFrom(Tail(out), cur \o it.v, tags)
       ELSE IF it.k = "tag" THEN LinesFrom(Tail(out), cur, Append(tags, CleanWs(it.v)))
       ELSE IF it.k = "nl" THEN <<[text |-> CleanWs(Append(cur, 10)), tags |-> tags]>> \o LinesFrom(Tail(out), <<>>, <<>>)
       ELSE LinesFrom(Tail(out), cur, tags)
Lines(out) == LinesFrom(out, <<>>, <<>>)

=============================================================================
