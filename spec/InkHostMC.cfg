SPECIFICATION Spec
CONSTANT MaxCalls = 4
VIEW hview
INVARIANT LookAheadIsInvisible
INVARIANT MessagesOnce
INVARIANT SwitchAwayAndBack
INVARIANT OthersUntouched
INVARIANT EvalLeavesTheStoryAlone
INVARIANT SaveLoadIdentity
INVARIANT ResetIsInitial
INVARIANT RefusedIsNoOp
CHECK_DEADLOCK FALSE
