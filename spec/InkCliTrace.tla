------------------------------ MODULE InkCliTrace ------------------------------
(***************************************************************************)
(* Validation of recorded sessions of the real rinklecate binary against   *)
(* InkCli.  IOEnv.CLI is ndjson with, per case, one line                   *)
(*   [root, turns (node id -> turn), next (node id -> label -> node id),   *)
(*    inputs, outputs (the objects scanned from the tool's stdout by an    *)
(*    independent strict JSON scanner; a fragment that is not a            *)
(*    well-formed JSON object of a known kind is [k |-> "malformed"]),     *)
(*    keepopen, mode]                                                      *)
(* For plain mode the converter cannot scan objects, so the expected       *)
(* sequence is printed ("EXPECT") and rendered and compared by the driver. *)
(***************************************************************************)
EXTENDS Naturals, Sequences, TLC, Json, IOUtils

Cases == ndJsonDeserialize(IOEnv.CLI)

VARIABLES l, nbad
vars == <<l, nbad>>

Expected(c) ==
  LET M == INSTANCE InkCli WITH Turn <- c.turns, Next <- c.next, KeepOpen <- c.keepopen IN
  M!Session(c.root, c.inputs, TRUE)

FirstDiff(a, b) ==
  LET n == IF Len(a) < Len(b) THEN Len(a) ELSE Len(b)
      d == {i \in 1..n : a[i] # b[i]} IN
  IF d # {} THEN CHOOSE i \in d : \A j \in d : i <= j
  ELSE IF Len(a) # Len(b) THEN n + 1 ELSE 0

Init == l = 1 /\ nbad = 0

Next ==
  /\ l <= Len(Cases)
  /\ LET c == Cases[l]
         e == Expected(c) IN
     IF c.mode = "plain"
     THEN PrintT(<<"EXPECT", c.case, ToJson(e)>>) /\ UNCHANGED nbad
     ELSE LET d == FirstDiff(e, c.outputs) IN
          IF d = 0 THEN UNCHANGED nbad
          ELSE PrintT(<<"MISMATCH", c.case, d,
                        IF d <= Len(e) THEN e[d].k ELSE "nothing",
                        IF d <= Len(c.outputs) THEN c.outputs[d].k ELSE "nothing">>) /\ nbad' = nbad + 1
  /\ l' = l + 1

Spec == Init /\ [][Next]_vars

AllConsumed ==
  /\ PrintT(<<"CONSUMED", TLCGet("stats").diameter - 1, Len(Cases)>>)
  /\ TLCGet("stats").diameter - 1 = Len(Cases)
=============================================================================
