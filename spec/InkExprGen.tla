------------------------------ MODULE InkExprGen ------------------------------
(***************************************************************************)
(* TLC as enumerator of expression trees with their values under InkValue  *)
(* (DESIGN.md 5/C07, 5/C04).  Every state is one expression over named     *)
(* leaves; the "invariant" Emit prints the tree and its value as one JSON  *)
(* line, which the harness renders into Ink source (`{expr}` and           *)
(* `~ r = expr`), compiles, plays and compares.                            *)
(*                                                                         *)
(* DEPTH = 1: every unary and binary operator over every (pair of) leaves  *)
(* DEPTH = 2: op1(op2(a, b), c) and op1(a, op2(b, c)) over reduced pools,  *)
(* DEPTH = 3: a unary operator (not, minus) under / over a binary one,      *)
(*            the slice selected by SLICE of MOD                           *)
(***************************************************************************)
EXTENDS Integers, Sequences, FiniteSets, TLC, Json

CONSTANTS DEPTH, SLICE, MOD, POOL    \* POOL: "full" | "small" | "arith"

Defs == [L0 |-> [ap |-> 2, aq |-> 4], L1 |-> [bp |-> 2, bq |-> 4, br |-> 6], L2 |-> [cp |-> 3]]

INSTANCE InkValue

It(o, n) == [o |-> o, n |-> n]
Fl(n, e) == [t |-> "float", n |-> n, e |-> e]

\* the named leaves and their values; the harness declares them as variables of the story
Leaf == [
  i0 |-> I(0), i1 |-> I(1), i2 |-> I(2), i3 |-> I(-1), i4 |-> I(-3), i5 |-> I(7), i6 |-> I(46341),
  i7 |-> I(MAX32), i8 |-> I(MIN32), i9 |-> I(MAX32 - 1), i10 |-> I(MIN32 + 1), i11 |-> I(65536),
  bt |-> B(TRUE), bf |-> B(FALSE),
  f0 |-> Fl(0, 0), f1 |-> Fl(1, 1), f2 |-> Fl(-3, 1), f3 |-> Fl(2, 0), f4 |-> Fl(9, 2),
  s0 |-> S(<<>>), s1 |-> S(<<97>>), s2 |-> S(<<97, 98>>), s3 |-> S(<<98>>), s4 |-> S(<<49>>),
  l0 |-> L({}, {}), l1 |-> L({It("L0", "ap")}, {}), l2 |-> L({It("L0", "ap"), It("L0", "aq")}, {}),
  l3 |-> L({It("L1", "bp")}, {}), l4 |-> L({It("L0", "ap"), It("L1", "bp")}, {}),
  l5 |-> L({It("L0", "aq"), It("L1", "br")}, {}), l6 |-> L({}, {"L0"}),
  l7 |-> L({It("L1", "bp"), It("L1", "bq"), It("L1", "br")}, {}), l8 |-> L({It("L2", "cp")}, {}) ]

Names ==
  CASE POOL = "full" -> DOMAIN Leaf
    [] POOL = "small" -> {"i0", "i2", "i4", "bt", "f1", "f3", "s1", "s2", "l0", "l2", "l4", "l6"}
    [] POOL = "arith" -> {"i0", "i1", "i3", "i5", "i6", "i7", "i8", "i9", "i10", "i11", "bt"}
    [] POOL = "lists" -> {"l0", "l1", "l2", "l3", "l4", "l5", "l6", "l7", "l8", "i1", "i2"}

BinOps == {"+", "-", "*", "/", "%", "==", "!=", "<", ">", "<=", ">=", "&&", "||", "MIN", "MAX", "POW", "?", "!?", "^"}
UnOps == {"_", "!", "FLOOR", "CEILING", "INT", "FLOAT", "LIST_COUNT", "LIST_VALUE", "LIST_MIN", "LIST_MAX",
          "LIST_ALL", "LIST_INVERT"}
ArithOps == {"+", "-", "*", "/", "%"}
Ops2 == IF POOL = "arith" THEN ArithOps ELSE IF POOL = "lists" THEN {"+", "-", "^", "?", "==", "<", ">="} ELSE BinOps

V(n) == [k |-> "v", n |-> n]
U(op, a) == [k |-> "u", op |-> op, a |-> a]
Bn(op, a, b) == [k |-> "b", op |-> op, a |-> a, b |-> b]

RECURSIVE Eval(_)
Eval(e) == CASE e.k = "v" -> Leaf[e.n]
             [] e.k = "u" -> Unary(e.op, Eval(e.a))
             [] e.k = "b" -> Binary(e.op, Eval(e.a), Eval(e.b))

Depth1 == {U(op, V(a)) : op \in UnOps, a \in Names} \cup {Bn(op, V(a), V(b)) : op \in BinOps, a \in Names, b \in Names}

\* a deterministic slice of the depth-2 trees: the slice SLICE of MOD by a hash of the positions of its parts
NameSeq == <<"i0", "i1", "i2", "i3", "i4", "i5", "i6", "i7", "i8", "i9", "i10", "i11", "bt", "bf", "f0", "f1", "f2", "f3",
             "f4", "s0", "s1", "s2", "s3", "s4", "l0", "l1", "l2", "l3", "l4", "l5", "l6", "l7", "l8">>
OpSeq == <<"+", "-", "*", "/", "%", "==", "!=", "<", ">", "<=", ">=", "&&", "||", "MIN", "MAX", "POW", "?", "!?", "^">>
Pos(seq, x) == CHOOSE i \in DOMAIN seq : seq[i] = x
Pick(o1, o2, a, b, c) ==
  (Pos(OpSeq, o1) * 131 + Pos(OpSeq, o2) * 71 + Pos(NameSeq, a) * 31 + Pos(NameSeq, b) * 17 + Pos(NameSeq, c) * 7) % MOD = SLICE
Depth2 ==
  UNION { {Bn(q[1], Bn(q[2], V(q[3]), V(q[4])), V(q[5])), Bn(q[1], V(q[3]), Bn(q[2], V(q[4]), V(q[5])))} :
          q \in {p \in Ops2 \X Ops2 \X Names \X Names \X Names : Pick(p[1], p[2], p[3], p[4], p[5])} }

\* DEPTH = 3: the unary operators not / minus under and over a binary operator - `not a == b` is `(not a) == b`,
\* `-a + b` is `(-a) + b`: the unary operators bind tighter than every binary one - over the pool, sliced like Depth2
PickM(o, u, a, b) == (Pos(OpSeq, o) * 131 + (IF u = "!" THEN 71 ELSE 0) + Pos(NameSeq, a) * 31 + Pos(NameSeq, b) * 17) % MOD = SLICE
Mixed ==
  UNION { {Bn(q[1], U(q[2], V(q[3])), V(q[4])), Bn(q[1], V(q[3]), U(q[2], V(q[4]))), U(q[2], Bn(q[1], V(q[3]), V(q[4])))} :
          q \in {p \in Ops2 \X {"_", "!"} \X Names \X Names : PickM(p[1], p[2], p[3], p[4])} }

Exprs == IF DEPTH = 1 THEN Depth1 ELSE IF DEPTH = 2 THEN Depth2 ELSE Mixed

VARIABLE e
vars == <<e>>

Init == e \in Exprs
Next == UNCHANGED vars
Spec == Init /\ [][Next]_vars

Emit == PrintT(<<"EXPR", ToJson([e |-> e, r |-> Eval(e)])>>)
=============================================================================
