---------------------------- MODULE InkHeapTrace ----------------------------
(***************************************************************************)
(* C18: dropping a story releases its memory; repeated resets and loads do *)
(* not grow the heap.  The heap is not something a specification of the    *)
(* Story API observes; what is specified here is the host-visible          *)
(* consequence, over the byte counter of the harness' counting allocator   *)
(* logged with every call (IOEnv.HEAP, ndjson, one line per call):         *)
(*                                                                         *)
(*   cycle(k)   a create-play-drop cycle ended with `live` bytes allocated *)
(*   mark(k)    the k-th repetition of a reset / load on ONE instance      *)
(*              reached its measuring point with `live` bytes allocated    *)
(*                                                                         *)
(* Rule: "repeated cycles do not grow the heap".  The first repetition is  *)
(* a warm-up.  From the second on, the live bytes must not keep growing:   *)
(* a violation is a final level above the level after the second           *)
(* repetition that was reached by growth in (all but at most one of) the   *)
(* repetitions in between.  A single step up or down - a buffer of the     *)
(* harness or of the allocator changing capacity once - is not growth.     *)
(***************************************************************************)
EXTENDS Naturals, Integers, Sequences, TLC, Json, IOUtils

Rows == ndJsonDeserialize(IOEnv.HEAP)

VARIABLES l, base, prev, ups, nbad
vars == <<l, base, prev, ups, nbad>>

Init == l = 1 /\ base = -1 /\ prev = -1 /\ ups = 0 /\ nbad = 0

Next ==
  /\ l <= Len(Rows)
  /\ LET r == Rows[l] IN
     IF r.kind = "case" \/ r.k = 1 THEN base' = -1 /\ prev' = -1 /\ ups' = 0 /\ UNCHANGED nbad
     ELSE IF r.k = 2 THEN base' = r.live /\ prev' = r.live /\ ups' = 0 /\ UNCHANGED nbad
     ELSE LET u == ups + (IF r.live > prev THEN 1 ELSE 0) IN
          /\ UNCHANGED base /\ prev' = r.live /\ ups' = u
          /\ IF r.last /\ r.live > base /\ u >= (r.k - 2) - 1
             THEN PrintT(<<"MISMATCH", l, IF r.kind = "cycle" THEN "Heap.drop_leaks" ELSE "Heap.repetition_grows", r.live - base>>)
                  /\ nbad' = nbad + 1
             ELSE UNCHANGED nbad
  /\ l' = l + 1

Spec == Init /\ [][Next]_vars

AllConsumed ==
  /\ PrintT(<<"CONSUMED", TLCGet("stats").diameter - 1, Len(Rows)>>)
  /\ TLCGet("stats").diameter - 1 = Len(Rows)
=============================================================================
