------------------------------ MODULE InkHostOps ------------------------------
(***************************************************************************)
(* Recorded host histories checked call by call against the executable     *)
(* model InkHost (C02, C09, C10, C17 with an absolute oracle).               *)
(*                                                                         *)
(* IOEnv.HOST: ndjson, one case per line:                                  *)
(*   [case, prog, ops: Seq([op, i, name, value, reset, slot,                *)
(*                          res, seen: [text, tags, can, choices, vars,     *)
(*                          cur, alive], sv])]                             *)
(* One TLC state per call, and per iteration of the continue loop.         *)
(***************************************************************************)
EXTENDS Integers, Sequences, FiniteSets, TLC, Json, IOUtils

Cases == ndJsonDeserialize(IOEnv.HOST)

VARIABLES ci, h, oi, ph, e, ev, steps, nbad
vars == <<ci, h, oi, ph, e, ev, steps, nbad>>

Host(P) == INSTANCE InkHost WITH Prog <- P
Look(P) == INSTANCE InkLook WITH Prog <- P
Out == INSTANCE InkOutput

MaxSteps == 8000

Init == ci = 1 /\ h = <<>> /\ oi = 1 /\ ph = "init" /\ e = <<>> /\ ev = <<>> /\ steps = 0 /\ nbad = 0
NextCase == ci' = ci + 1 /\ h' = <<>> /\ oi' = 1 /\ ph' = "init" /\ e' = <<>> /\ ev' = <<>> /\ steps' = 0

Fail(rule, expected) ==
  /\ PrintT(<<"MISMATCH", Cases[ci].case, oi, rule, Cases[ci].ops[oi].op, ToJson(expected)>>)
  /\ nbad' = nbad + 1 /\ NextCase

\* the recorded call against the model's answer hh (state after the call) and result
\* notes: the notifications the model expects from this call (a set of <<observer, variable, value>>)
NotesOf(rec) == [i \in DOMAIN rec.notes |-> <<rec.notes[i].o, rec.notes[i].var, rec.notes[i].val>>]
Diff(P, rec, hh, res, notes, full) ==
  LET seen == Host(P)!Seen(hh)
      badv == {v \in DOMAIN rec.seen.vars : v \in DOMAIN seen.vars /\ seen.vars[v] # rec.seen.vars[v]} IN
  IF res # rec.res THEN "result"
  ELSE IF "checked" \notin DOMAIN notes /\ ~Host(P)!NotesOk(NotesOf(rec), notes) THEN "notifications"
  ELSE IF ~full THEN ""
  ELSE IF seen.nerr # rec.seen.nerr THEN "errors"
  ELSE IF seen.warns # rec.seen.warns THEN "warnings"
  ELSE IF seen.text # rec.seen.text THEN "text"
  ELSE IF seen.tags # rec.seen.tags THEN "tags"
  ELSE IF seen.can # rec.seen.can THEN "can"
  ELSE IF seen.choices # rec.seen.choices THEN "choices"
  ELSE IF badv # {} THEN "vars:" \o (CHOOSE v \in badv : TRUE)
  ELSE IF rec.sv = <<>> THEN ""
  ELSE IF seen.cur # rec.seen.cur THEN "flow"
  ELSE IF seen.alive # {rec.seen.alive[i] : i \in DOMAIN rec.seen.alive} THEN "flows"
  ELSE LET v == Look(P)!SaveView(hh.m)
           bad == {f \in {"turn", "vars", "counts", "threads", "stream", "choices"} : v[f] # rec.sv[f]} IN
       IF bad = {} THEN "" ELSE "save:" \o (CHOOSE f \in bad : TRUE)

Expected(P, hh, res) == [res |-> res, seen |-> Host(P)!Seen(hh), save |-> Look(P)!SaveView(hh.m)]

\* a call that is one step of the model
Answer(P, op) ==
  CASE op.op = "choose" -> Host(P)!Choose(h, op.i)
    [] op.op = "set_var" -> Host(P)!SetVar(h, op.name, op.value)
    [] op.op = "choose_path" -> Host(P)!ChoosePath(h, op.name, op.reset)
    [] op.op = "switch_flow" -> Host(P)!SwitchFlow(h, op.name)
    [] op.op = "switch_default" -> Host(P)!SwitchDefault(h)
    [] op.op = "remove_flow" -> Host(P)!RemoveFlow(h, op.name)
    [] op.op = "save" -> Host(P)!Save(h, op.slot)
    [] op.op = "load" -> Host(P)!Load(h, op.slot)
    [] op.op = "reset" -> Host(P)!Reset(h)
    [] op.op = "observe" -> Host(P)!Observe(h, op.i, op.name)
    [] op.op = "remove_observer" -> Host(P)!Unobserve(h, op.i, op.name)
    [] op.op = "set_handler" -> Host(P)!SetHandler(h)

DoneN(P, rec, hh, res, notes, full) ==
  LET d == Diff(P, rec, hh, res, notes, full) IN
  IF d # "" THEN Fail("Host." \o d, [exp |-> Expected(P, hh, res), notes |-> notes])
  ELSE /\ h' = hh /\ oi' = oi + 1 /\ ph' = "op" /\ e' = <<>> /\ ev' = <<>> /\ UNCHANGED <<ci, steps, nbad>>
Done(P, rec, hh, res) == DoneN(P, rec, hh, res, Host(P)!NoNotes, TRUE)
\* (the notifications of this call have been checked already)
Checked == [must |-> <<>>, may |-> <<>>, checked |-> TRUE]
DoneQ(P, rec, hh, res) == DoneN(P, rec, hh, res, Checked, TRUE)

\* calls that are refused while a time-limited continue is unfinished
Guarded == {"choose_path", "switch_flow", "reset", "observe", "remove_observer", "eval_fn", "choose"}

Play ==
  /\ ci <= Len(Cases)
  /\ LET c == Cases[ci]
         P == c.prog IN
     IF steps > MaxSteps THEN Fail("Host.fuel", <<>>)
     ELSE CASE ph = "init" -> /\ h' = Host(P)!Init /\ ph' = "op" /\ UNCHANGED <<ci, oi, e, ev, steps, nbad>>
          [] ph = "op" ->
               IF oi > Len(c.ops) THEN NextCase /\ UNCHANGED nbad
               ELSE LET op == c.ops[oi] IN
                    IF h.async /\ op.op \in Guarded
                    THEN DoneN(P, op, h, "err", Host(P)!NoNotes, FALSE)       \* refused; what is "current" mid-line is not compared
                    ELSE IF op.op = "cont_async" /\ ~op.finished
                    THEN \* a slice that does not finish the line: nothing a host may rely on has changed
                         IF ~h.async /\ ~Host(P)!CanContinue(h) THEN Done(P, op, h, "err")
                         ELSE DoneN(P, op, [h EXCEPT !.async = TRUE], "ok", Host(P)!NoNotes, FALSE)
                    ELSE IF op.op \in {"cont", "cont_async"}
                    THEN IF ~h.async /\ ~Host(P)!CanContinue(h) THEN Done(P, op, h, "err")
                         ELSE /\ e' = Look(P)!BeginCont(Look(P)!Engine(h.m)) /\ ph' = "loop"
                              /\ UNCHANGED <<ci, h, oi, ev, steps, nbad>>
                    ELSE IF op.op = "set_var"
                    THEN LET a == Answer(P, op) IN DoneN(P, op, a.h, a.res, Host(P)!NotesAfterSet(h, op.name, op.value), TRUE)
                    ELSE IF op.op = "eval_fn"
                    THEN LET a == Host(P)!EvalBegin(h, op.name, op.args) IN
                         IF a.res = "err" THEN Done(P, op, h, "err")
                         ELSE /\ h' = a.h /\ ev' = [saved |-> a.saved, acc |-> <<>>, notes |-> Host(P)!NoNotes] /\ ph' = "evalcont"
                              /\ UNCHANGED <<ci, oi, e, steps, nbad>>
                    ELSE IF op.op = "reset"
                    THEN LET a == Answer(P, op) IN DoneN(P, op, a.h, a.res, Host(P)!NotesAfterReset(h), TRUE)
                    ELSE LET a == Answer(P, op) IN Done(P, op, a.h, a.res)
          [] ph = "evalcont" ->
               \* the host continues the function until it cannot continue, then takes the result
               IF Host(P)!CanContinue(h)
               THEN /\ e' = Look(P)!BeginCont(Look(P)!Engine(h.m)) /\ ph' = "evalloop" /\ UNCHANGED <<ci, h, oi, ev, steps, nbad>>
               ELSE LET op == c.ops[oi]
                        hh == Host(P)!EvalEnd(h, ev.saved)
                        val == h.m.ret IN
                    IF ~(val.t = op.val.t /\ val = op.val) THEN Fail("Host.eval:value", [val |-> val, text |-> ev.acc])
                    ELSE IF ev.acc # op.ftext THEN Fail("Host.eval:text", [val |-> val, text |-> ev.acc])
                    ELSE IF ~Host(P)!NotesWithin(NotesOf(op), ev.notes) THEN Fail("Host.eval:notifications", ev.notes)
                    ELSE DoneQ(P, op, hh, "ok")
          [] ph = "evalloop" ->
               LET r == Look(P)!SingleStep(e) IN
               IF Look(P)!LoopOver(r)
               THEN LET e1 == Look(P)!EndCont([m |-> r.m, snap |-> r.snap, log |-> r.log]) IN
                    /\ h' = [h EXCEPT !.m = e1.m]
                    /\ ev' = [ev EXCEPT !.acc = ev.acc \o Out!CurrentText(e1.m.out),
                                        !.notes = Host(P)!NotesSum(ev.notes, Host(P)!NotesAfterCont(h, e1.m))]
                    /\ ph' = "evalcont" /\ e' = <<>> /\ UNCHANGED <<ci, oi, steps, nbad>>
               ELSE /\ e' = [m |-> r.m, snap |-> r.snap, log |-> r.log] /\ steps' = steps + 1 /\ UNCHANGED <<ci, h, oi, ph, ev, nbad>>
          [] ph = "loop" ->
               LET r == Look(P)!SingleStep(e) IN
               IF Look(P)!LoopOver(r)
               THEN LET e1 == Look(P)!EndCont([m |-> r.m, snap |-> r.snap, log |-> r.log]) IN
                    \* (the finishing slice of a sliced continue is the continue)
                    \* messages: handed to the handler now, or kept; an error without a handler fails the call (C13)
                    LET d == Host(P)!Deliver(h, e1.m) IN
                    IF c.ops[oi].calls # e1.log THEN Fail("Host.external calls", [calls |-> e1.log])
                    ELSE IF c.ops[oi].msgs # d.msgs THEN Fail("Host.messages", [msgs |-> d.msgs, res |-> d.res])
                    ELSE DoneN(P, c.ops[oi], [h EXCEPT !.m = d.m, !.async = FALSE], d.res,
                               IF d.res = "ok" THEN Host(P)!NotesAfterCont(h, d.m) ELSE Host(P)!NoNotes, TRUE)
               ELSE /\ e' = [m |-> r.m, snap |-> r.snap, log |-> r.log] /\ steps' = steps + 1 /\ UNCHANGED <<ci, h, oi, ph, ev, nbad>>

Finish ==
  /\ ci = Len(Cases) + 1
  /\ PrintT(<<"CONSUMED", ci - 1, Len(Cases), nbad>>)
  /\ ci' = ci + 1 /\ UNCHANGED <<h, oi, ph, e, ev, steps, nbad>>

Next == Play \/ Finish
Spec == Init /\ [][Next]_vars
=============================================================================
