SPECIFICATION Spec
CONSTANTS DEPTH = 1
 SLICE = 0
 MOD = 1
 POOL = "small"
INVARIANT Emit
CHECK_DEADLOCK FALSE
