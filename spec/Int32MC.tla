------------------------------- MODULE Int32MC -------------------------------
(***************************************************************************)
(* Sanity model of Int32: algebraic identities of wrap-around arithmetic   *)
(* checked by TLC over a boundary pool (every pair and triple).            *)
(***************************************************************************)
EXTENDS Int32, TLC

Pool == {MIN32, MIN32 + 1, -65537, -65536, -46341, -3, -2, -1, 0, 1, 2, 3, 7, 46340, 46341, 65535, 65536, MAX32 - 1, MAX32}

VARIABLE x
Init == x \in Pool \X Pool
Next == UNCHANGED x

Laws ==
  LET a == x[1]
      b == x[2] IN
  /\ IsInt32(Add32(a, b)) /\ IsInt32(Mul32(a, b)) /\ IsInt32(Sub32(a, b))
  /\ Add32(a, b) = Add32(b, a)
  /\ Mul32(a, b) = Mul32(b, a)
  /\ Sub32(Add32(a, b), b) = a
  /\ Add32(a, Neg32(a)) = 0
  /\ Mul32(a, 1) = a /\ Mul32(a, 0) = 0 /\ Mul32(a, -1) = Neg32(a)
  /\ Mul32(a, 2) = Add32(a, a)
  /\ \A c \in {-2, 3, 65536} : Mul32(a, Add32(b, c)) = Add32(Mul32(a, b), Mul32(a, c))
  /\ (~DivUndefined(a, b)) =>
        /\ Add32(Mul32(Div32(a, b), b), Mod32(a, b)) = a
        /\ (Mod32(a, b) = 0 \/ (Mod32(a, b) < 0) = (a < 0))
        /\ (b # MIN32 => (IF Mod32(a, b) < 0 THEN 0 - Mod32(a, b) ELSE Mod32(a, b)) < (IF b < 0 THEN 0 - b ELSE b))
=============================================================================
