---------------------------- MODULE InkPathAudit ----------------------------
(***************************************************************************)
(* Validation of the content audit of the implementation (hook             *)
(* verif_content_audit / verif_relative_audit) against InkPath (C19, and   *)
(* the tree-equality half of C14).                                         *)
(*                                                                         *)
(* IOEnv.AUDIT: ndjson; line kinds                                         *)
(*   "doc"   start of a document                                           *)
(*   "node"  one object: structure (p, x, n, isC, cx, cn) and what the     *)
(*           implementation reported (path, self, approx, re, rerel, reeq, *)
(*           heq)                                                          *)
(*   "rel"   a pair (a, b): reported relative path text and whether the    *)
(*           implementation resolved it, re-parsed it equal, hashed equal  *)
(*   "pos"   a position found in a save document: container path           *)
(*           components + index, or an exact object path                   *)
(* One state per line; a line that violates the specification is printed   *)
(* ("MISMATCH") and counted.                                               *)
(***************************************************************************)
EXTENDS Naturals, Integers, Sequences, TLC, Json, IOUtils

Rows == ndJsonDeserialize(IOEnv.AUDIT)

VARIABLES l, base, nbad
vars == <<l, base, nbad>>

\* nodes of the current document: rows base+1 .. ; node ids are 1-based within the document
NodeAt(b, i) == Rows[b + i]

Check(row, Node) ==
  LET P == INSTANCE InkPath WITH Node <- Node IN
  CASE row.kind = "node" ->
         LET i == row.id IN
         IF row.path # P!PathText(P!PathOf(i), FALSE) THEN "Path.print"
         ELSE IF P!Resolve(P!PathOf(i)) # i THEN "Path.spec_resolution"
         ELSE IF ~row.self \/ row.approx THEN "Path.resolves_to_self"
         ELSE IF row.re # row.path \/ row.rerel THEN "Path.text_roundtrip"
         ELSE IF ~row.reeq THEN "Path.reparsed_not_equal"
         ELSE IF ~row.heq THEN "Path.equal_paths_hash_differently"
         ELSE ""
    [] row.kind = "rel" ->
         LET r == P!ToRelative(row.a, P!PathOf(row.b)) IN
         IF row.rel # P!PathText(r.path, r.rel) \/ row.isrel # r.rel THEN "Rel.conversion"
         ELSE IF P!ResolveFrom(row.a, r) # row.b THEN "Rel.spec_resolution"
         ELSE IF ~row.ok THEN "Rel.resolution"
         ELSE IF row.re # row.rel THEN "Rel.text_roundtrip"
         ELSE IF ~row.reeq THEN "Rel.reparsed_not_equal"
         ELSE IF ~row.heq THEN "Rel.equal_paths_hash_differently"
         \* two different objects have different paths; paths that compare equal must hash equally
         ELSE IF row.a # row.b /\ row.peq THEN "Path.distinct_objects_compare_equal"
         ELSE IF row.peq /\ ~row.pheq THEN "Path.equal_paths_hash_differently"
         ELSE ""
    [] row.kind = "pos" ->
         LET c == P!Resolve(row.path) IN
         IF c = 0 THEN "Pos.unresolvable"
         ELSE IF row.idx >= 0 /\ (~Node[c].isC \/ row.idx > Len(Node[c].cx)) THEN "Pos.index_out_of_range"
         ELSE ""
    \* a reference found in a compiled document (divert, tunnel, function call, thread start, choice target,
    \* read count, divert-target literal): it must resolve exactly, from the object that holds it, to existing
    \* content - to a container where a container is meant (C06)
    [] row.kind = "ref" ->
         LET c == P!ResolveFrom(row.from, [rel |-> row.rel, path |-> row.path]) IN
         IF c = 0 THEN "Ref.unresolvable"
         ELSE IF row.want = "container" /\ ~Node[c].isC THEN "Ref.not_a_container"
         ELSE ""
    \* outcome of one call of the compiler (C06): a story that loads, or an error whose line - if it names one -
    \* exists in the input; anything else (panic, abort, timeout) matches no outcome
    [] row.kind = "compile" ->
         IF row.res = "ok" THEN (IF row.loads THEN "" ELSE "Compile.output_does_not_load")
         ELSE IF row.res = "err" THEN (IF row.line = 0 \/ (row.line >= 1 /\ row.line <= row.nlines) THEN "" ELSE "Compile.error_line_out_of_range")
         ELSE "Compile." \o row.res
    [] OTHER -> ""

Init == l = 1 /\ base = 0 /\ nbad = 0

Next ==
  /\ l <= Len(Rows)
  /\ LET row == Rows[l] IN
     IF row.kind = "doc"
     THEN base' = l /\ UNCHANGED nbad
     ELSE IF row.kind = "compile"
     THEN /\ UNCHANGED base
          /\ LET v == Check(row, <<>>) IN
             IF v = "" THEN UNCHANGED nbad ELSE PrintT(<<"MISMATCH", l, v>>) /\ nbad' = nbad + 1
     ELSE LET N == [i \in 1..Rows[base].n |-> Rows[base + i]]
              v == Check(row, N) IN
          /\ UNCHANGED base
          /\ IF v = "" THEN UNCHANGED nbad
             ELSE PrintT(<<"MISMATCH", l, v>>) /\ nbad' = nbad + 1
  /\ l' = l + 1

Spec == Init /\ [][Next]_vars

AllConsumed ==
  /\ PrintT(<<"CONSUMED", TLCGet("stats").diameter - 1, Len(Rows)>>)
  /\ TLCGet("stats").diameter - 1 = Len(Rows)
=============================================================================
