------------------------------- MODULE InkHostMC -------------------------------
(***************************************************************************)
(* Design-level model checking of the host interface: TLC explores EVERY   *)
(* history of at most MaxCalls public calls, drawn from an alphabet of     *)
(* valid and invalid forms of every kind of call, over a small program     *)
(* (syntax tree read from IOEnv.MCPROG), and checks in every reachable     *)
(* state the invariants below.  No code is run here: this says that the    *)
(* DESIGN (look-ahead with snapshot and rewind, flows, save slots, path    *)
(* jumps, function evaluation by the host) has the properties; the binding *)
(* of the design to the engine is InkHostOps / InkLookTrace.               *)
(*                                                                         *)
(*   LookAheadIsInvisible  from every reachable state in which the story   *)
(*       can continue, continuing line by line with look-ahead to the end  *)
(*       of the turn delivers the lines, choices, globals, counts, turn    *)
(*       indices and sequence counters that executing the turn without any *)
(*       look-ahead gives (C01)                                            *)
(*   SwitchAwayAndBack  switching to any other flow and back changes       *)
(*       nothing (C10)                                                     *)
(*   OthersUntouched  a continue changes the call stack, output and        *)
(*       choices of no flow but the current one (C10)                      *)
(*   MessagesOnce  the messages (errors, warnings) handed to the handler   *)
(*       or left pending by continuing line by line are those that         *)
(*       executing the turn without look-ahead raises: none lost in a      *)
(*       rewind, none raised twice (part of LookAheadIsInvisible); a       *)
(*       handler leaves nothing pending; an error stops the story (C13)    *)
(*   EvalLeavesTheStoryAlone  evaluating any function of the program from  *)
(*       the host, in any reachable state, leaves the current flow (call   *)
(*       stack, output, choices, status, last position) and the other      *)
(*       flows as they were; only globals, counts and sequence counters    *)
(*       may have moved (C16)                                              *)
(*   SaveLoadIdentity  save, any one call, load is the state at the save   *)
(*       (C02); ResetIsInitial (C17); RefusedIsNoOp (C09): these hold by   *)
(*       the construction of InkHost and are asserted so that a change of  *)
(*       the model that breaks them is noticed                             *)
(***************************************************************************)
EXTENDS Integers, Sequences, FiniteSets, TLC, Json, IOUtils

CONSTANT MaxCalls

P == ndJsonDeserialize(IOEnv.MCPROG)[1]

H == INSTANCE InkHost WITH Prog <- P
L == INSTANCE InkLook WITH Prog <- P
S == INSTANCE InkSem WITH Prog <- P
OS == INSTANCE InkOutput

VARIABLES h, n
vars == <<h, n>>
hview == h          \* (the same state reached by histories of different length is one state)

Fuel == 400

\* a whole continue of the engine model, in one step
RECURSIVE Loop(_, _)
Loop(e, fuel) ==
  IF fuel = 0 THEN e
  ELSE LET r == L!SingleStep(e)
           e1 == [m |-> r.m, snap |-> r.snap, log |-> r.log] IN
       IF L!LoopOver(r) THEN L!EndCont(e1) ELSE Loop(e1, fuel - 1)
ContD(hh) == IF ~H!CanContinue(hh) THEN [h |-> hh, msgs |-> <<>>]
             ELSE LET d == H!Deliver(hh, Loop(L!BeginCont(L!Engine(hh.m)), Fuel).m) IN [h |-> [hh EXCEPT !.m = d.m], msgs |-> d.msgs]
Cont(hh) == ContD(hh).h

\* to the end of the turn, line by line with look-ahead: the lines delivered and the final machine
RECURSIVE TurnLook(_, _, _, _)
TurnLook(hh, lines, got, fuel) ==
  IF fuel = 0 \/ ~H!CanContinue(hh) THEN [m |-> hh.m, lines |-> lines, got |-> got, done |-> ~H!CanContinue(hh)]
  ELSE LET c == ContD(hh)
           h1 == c.h IN
       TurnLook(h1, Append(lines, [text |-> OS!CurrentText(h1.m.out), tags |-> L!TagsOf(h1.m.out)]), got \o c.msgs, fuel - 1)

\* to the end of the turn without look-ahead: statement by statement on one stream
RECURSIVE TurnPlain(_, _)
TurnPlain(m, fuel) ==
  IF fuel = 0 \/ m.err # "" \/ m.st \in {"wait", "over", "out"} THEN m
  ELSE TurnPlain(IF m.st = "run" THEN S!StepM(m) ELSE S!Settle(m), fuel - 1)

NonEmpty(lines) == SelectSeq(lines, LAMBDA ln : \E i \in DOMAIN ln.text : ln.text[i] \notin {10, 32, 9})
Core(m) == [vars |-> m.vars, cnt |-> m.cnt, tof |-> m.tof, seqc |-> m.seqc, st |-> m.st,
            ch |-> [i \in 1..Len(m.ch) |-> <<m.ch[i].text, m.ch[i].tags, m.ch[i].fb>>]]

\* the messages of a turn: how many warnings, and the error that ended it
Pending(m) == [w |-> Len(m.warns), e |-> m.err]
MsgsLook(a) == [w |-> Len(SelectSeq(a.got, LAMBDA x : x.k = "W")) + Len(a.m.warns),
                e |-> IF \E i \in DOMAIN a.got : a.got[i].k = "E" THEN a.got[CHOOSE i \in DOMAIN a.got : a.got[i].k = "E"].c ELSE a.m.err]
LookAheadIsInvisible ==
  H!CanContinue(h) =>
    LET a == TurnLook(h, <<>>, <<>>, 60)
        b == L!OutOfContent(TurnPlain([h.m EXCEPT !.out = <<>>], 1500)) IN
    (a.done /\ (b.st \in {"wait", "over", "out"} \/ b.err # "")) =>      \* (runaway stories are outside the claim)
       /\ b.err = "" => NonEmpty(a.lines) = NonEmpty(OS!Lines(b.out))
       /\ Core(a.m) = Core(b)
       /\ MsgsLook(a) = Pending(b)
       /\ Cardinality({i \in DOMAIN a.got : a.got[i].k = "E"}) <= 1

\* a handler leaves nothing pending after a continue; an error that is pending stops the story
MessagesOnce ==
  /\ h.m.err # "" => ~H!CanContinue(h)
  /\ LET c == ContD(h) IN
     /\ (h.handler /\ H!CanContinue(h)) => (c.h.m.err = "" /\ c.h.m.warns = <<>>)
     \* a statement that fails is not executed ahead of its line: the continue that fails has no finished line to show
     \* (the line before the failing statement was delivered by a continue of its own that succeeded)
     /\ (h.m.err = "" /\ c.h.m.err \notin {"", "out"}) => ~OS!EndsInNewline(c.h.m.out)
     /\ ~h.handler => (c.msgs = <<>> /\ Len(c.h.m.warns) >= Len(h.m.warns) /\ (h.m.err # "" => c.h.m.err = h.m.err))

SwitchAwayAndBack ==
  \A f \in {"f1", "f2"} \ {h.cur} : H!SwitchFlow(H!SwitchFlow(h, f).h, h.cur).h.m = h.m

OthersUntouched == LET h1 == Cont(h) IN h1.others = h.others /\ h1.cur = h.cur /\ h1.slots = h.slots

SaveLoadIdentity ==
  LET s == H!Save(h, "mc").h IN
  \A op \in {"cont", "reset", "jump"} :
     LET t == CASE op = "cont" -> Cont(s) [] op = "reset" -> H!Reset(s).h [] OTHER -> H!ChoosePath(s, "k0", TRUE).h
         r == H!Load(t, "mc").h IN
     \* (messages are not part of a save: those pending at the load stay)
     r.m = [h.m EXCEPT !.err = t.m.err, !.warns = t.m.warns] /\ r.cur = h.cur /\ r.others = h.others

\* the host evaluates function f with arguments 1, 2, ..: begin, continue until it cannot, take the result, end
RECURSIVE EvalRun(_, _)
EvalRun(hh, fuel) == IF fuel = 0 \/ ~H!CanContinue(hh) THEN hh ELSE EvalRun(Cont(hh), fuel - 1)
Functions == {k \in DOMAIN P.knots : P.knots[k].kind = "function"}
EvalLeavesTheStoryAlone ==
  (h.m.err = "" /\ ~h.async) =>
    \A f \in Functions :
      LET args == [i \in 1..Len(P.knots[f].params) |-> S!I(i)]
          \* (evaluated without a handler, so that an error raised inside the function stays visible: a function that
          \* fails forces the story to its end - that is the engine's rule for errors, not a disturbance by the call)
          b == H!EvalBegin([h EXCEPT !.handler = FALSE], f, args)
          r == [H!EvalEnd(EvalRun(b.h, 40), b.saved) EXCEPT !.handler = h.handler] IN
      (b.res = "ok" /\ r.m.err = "") =>
        /\ H!FlowOf(r.m) = H!FlowOf(h.m)
        /\ r.others = h.others /\ r.cur = h.cur /\ r.slots = h.slots

\* C11 at the design level: what the observers are told agrees with polling the variables around the continue.
\* Every global whose value after a completed continue differs from its value before is in the set the watchers MUST be
\* told about (with the value it has now - Told reads m.vars); a global that is in neither set has the value it had;
\* must is part of may.  The sets are part of the machine, so the rewind of a look-ahead takes back what the look-ahead
\* assigned and a look-ahead that is kept keeps it: "changes made only in discarded look-ahead are not reported until the
\* continue that commits them" is then LookAheadIsInvisible (same variables) + this invariant (sets = differences).
ObserversMatchPolling ==
  H!CanContinue(h) =>
    LET c == Cont(h) IN
    /\ c.m.dirty \subseteq c.m.touched
    /\ \A g \in DOMAIN c.m.vars :
         /\ (g \notin DOMAIN h.m.vars \/ c.m.vars[g] # h.m.vars[g]) => g \in c.m.dirty
         /\ g \notin c.m.touched => (g \in DOMAIN h.m.vars /\ c.m.vars[g] = h.m.vars[g])
    \* a host assignment between continues tells the watchers of that variable at once, once, the value assigned - and only them
    /\ \A g \in DOMAIN h.m.vars :
         LET ho == H!Observe(h, "o1", g).h
             nn == H!NotesAfterSet(ho, g, S!I(7)) IN
         /\ nn.must = nn.may /\ nn.must = (<<"o1", g, S!I(7)>> :> 1)
         /\ \A g2 \in DOMAIN h.m.vars \ {g} : H!NotesAfterSet(ho, g2, S!I(7)).may = <<>>
         /\ H!Unobserve(ho, "o1", g).h.obs = h.obs /\ H!Reset(ho).h.obs = ho.obs

ResetIsInitial == LET r == H!Reset(h).h IN r.m = S!Start /\ r.cur = H!DefaultFlow /\ r.others = <<>> /\ r.obs = h.obs /\ r.handler = h.handler

RefusedIsNoOp ==
  /\ H!Choose(h, 9).h = h /\ H!SetVar(h, "nosuch", S!I(1)).h = h /\ H!ChoosePath(h, "nosuch", TRUE).h = h
  /\ H!RemoveFlow(h, "DEFAULT_FLOW").h = h /\ H!Load(h, "never").h = h

\* ---------------------------------------------------------------- the histories
Ints == {g \in {P.globals[i].n : i \in DOMAIN P.globals} : TRUE}
Knots == {k \in DOMAIN P.knots : P.knots[k].kind = "knot" /\ P.knots[k].params = <<>>}       \* (a host jump passes no arguments)

Init == h = H!Init /\ n = 0

Call ==
  \/ h' = Cont(h)
  \/ \E i \in {0, 1} : h' = H!Choose(h, i).h
  \/ \E k \in Knots, r \in BOOLEAN : h' = H!ChoosePath(h, k, r).h
  \/ \E f \in {"f1", "DEFAULT_FLOW"} : h' = H!SwitchFlow(h, f).h
  \/ h' = H!RemoveFlow(h, "f1").h
  \/ h' = H!Save(h, "a").h
  \/ h' = H!Load(h, "a").h
  \/ h' = H!Reset(h).h
  \/ h' = H!SetVar(h, P.globals[1].n, S!I(5)).h
  \/ \E i \in DOMAIN P.globals : P.globals[i].v.t = "int" /\ h' = H!SetVar(h, P.globals[i].n, S!I(0)).h
  \/ h' = H!SetHandler(h).h

Next == n < MaxCalls /\ Call /\ n' = n + 1

Spec == Init /\ [][Next]_vars
=============================================================================
