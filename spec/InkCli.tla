-------------------------------- MODULE InkCli --------------------------------
(***************************************************************************)
(* The play protocol of the command-line tool rinklecate (property C20),   *)
(* as a function from the library's transcript of a story and a script of  *)
(* input lines to the sequence of output objects.                          *)
(*                                                                         *)
(* The transcript is a tree of TURNS, given by the constants               *)
(*   Turn[n]  = [lines   |-> sequence of [text, tags, hastags, issues],    *)
(*               choices |-> id of the list of offered choices, nch]       *)
(*   Next[n]  = function from a choice index (as string "k0", "k1", ...)   *)
(*              or a divert label ("j:<path>") to the next turn            *)
(* where text/tags/choices/issues are interned ids of what the LIBRARY     *)
(* produces for the same program (the harness plays it with an error       *)
(* handler and fallbacks allowed, as the tool does).                       *)
(*                                                                         *)
(* Input lines are classified by the converter:                            *)
(*   [k |-> "num", v |-> i]     a choice number (1-based i+1 typed)        *)
(*   [k |-> "divert", lab, known]   "-> path"                              *)
(*   [k |-> "help"] [k |-> "blank"] [k |-> "junk"] [k |-> "quit"]          *)
(* The end of the script is the end of the input stream.                   *)
(*                                                                         *)
(* Output objects (JSON mode): text(id), tags(id), issues(id or 0 for the  *)
(* tool's own message), choices(id), needInput, cmdOutput, end, close.     *)
(* In plain mode the same sequence is rendered as lines and prompts.       *)
(***************************************************************************)
EXTENDS Naturals, Sequences, TLC

CONSTANTS Turn, Next, KeepOpen

O(k, v) == [k |-> k, v |-> v]

\* what evaluating the story prints for one turn
RECURSIVE LinesOut(_)
LinesOut(ls) ==
  IF ls = <<>> THEN <<>>
  ELSE LET h == Head(ls) IN
       <<O("text", h.text)>> \o (IF h.hastags THEN <<O("tags", h.tags)>> ELSE <<>>)
                             \o (IF h.issues # 0 THEN <<O("issues", h.issues)>> ELSE <<>>)
                             \o LinesOut(Tail(ls))

ChoiceLabel(i) == "k" \o ToString(i)

\* the whole session from turn n with the remaining input lines
RECURSIVE Session(_, _, _)
RECURSIVE Prompt(_, _, _)
Prompt(n, ins, shown) ==
  \* waiting for input at turn n; `shown` tells whether the turn's lines have been printed already
  IF ins = <<>> THEN <<O("needInput", 0), O("close", 0)>>
  ELSE LET i == Head(ins)
           rest == Tail(ins) IN
       CASE i.k = "blank" -> <<O("needInput", 0)>> \o Prompt(n, rest, shown)
         [] i.k = "junk"  -> <<O("needInput", 0)>> \o Prompt(n, rest, shown)
         [] i.k = "help"  -> <<O("needInput", 0), O("cmdOutput", 0)>> \o Prompt(n, rest, shown)
         [] i.k = "quit"  -> <<O("needInput", 0)>>
         [] i.k = "num"   -> IF i.v >= 0 /\ i.v < Turn[n].nch
                             THEN <<O("needInput", 0)>> \o Session(Next[n][ChoiceLabel(i.v)], rest, TRUE)
                             ELSE <<O("needInput", 0)>> \o Prompt(n, rest, shown)
         [] i.k = "divert" -> IF i.known
                              THEN <<O("needInput", 0)>> \o Session(Next[n][i.lab], rest, TRUE)
                              \* a refused jump: the tool's own issue, then the same choices are offered again
                              ELSE <<O("needInput", 0), O("issues", 0)>> \o Session(n, rest, FALSE)

Session(n, ins, printLines) ==
  (IF printLines THEN LinesOut(Turn[n].lines) ELSE <<>>)
  \o (IF Turn[n].nch = 0
      THEN (IF KeepOpen THEN <<O("end", 0)>> ELSE <<>>)
      ELSE <<O("choices", Turn[n].choices)>> \o Prompt(n, ins, TRUE))

=============================================================================
