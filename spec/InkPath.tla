------------------------------- MODULE InkPath -------------------------------
(***************************************************************************)
(* Path algebra of compiled Ink stories (DESIGN.md 3.4, property C19).     *)
(*                                                                         *)
(* A story is a tree of objects.  Node[i] (1-based; 1 is the root) is      *)
(*   [p   parent id (0 for the root),                                      *)
(*    x   position in the parent's indexed content, -1 for named-only,     *)
(*    n   name ("" if none), isC container?,                               *)
(*    cx  sequence of indexed children, cn  name -> child (named children)]*)
(*                                                                         *)
(* A path is a sequence of components [k |-> "i", v |-> index] or          *)
(* [k |-> "n", v |-> name]; the name "^" means "parent".  An object's own  *)
(* path addresses named containers by name and everything else by index.   *)
(***************************************************************************)
EXTENDS Naturals, Integers, Sequences, TLC

CONSTANT Node

IdxC(v) == [k |-> "i", v |-> v]
NameC(v) == [k |-> "n", v |-> v]
Parent == NameC("^")

\* (TLC refuses to compare an index with a name, so component equality looks at the kind first)
CompEq(c, d) == c.k = d.k /\ c.v = d.v
IsParent(c) == c.k = "n" /\ c.v = "^"

Comp(i) == IF Node[i].isC /\ Node[i].n # "" THEN NameC(Node[i].n) ELSE IdxC(Node[i].x)

RECURSIVE PathOf(_)
PathOf(i) == IF Node[i].p = 0 THEN <<>> ELSE Append(PathOf(Node[i].p), Comp(i))

PrintComp(c) == IF c.k = "i" THEN ToString(c.v) ELSE c.v

RECURSIVE Join(_)
Join(path) == IF path = <<>> THEN ""
              ELSE IF Len(path) = 1 THEN PrintComp(path[1])
              ELSE PrintComp(path[1]) \o "." \o Join(Tail(path))

PathText(path, rel) == (IF rel THEN "." ELSE "") \o Join(path)

\* one resolution step; 0 = not found
Step(cur, c) ==
  IF cur = 0 THEN 0
  ELSE IF c.k = "i" THEN (IF c.v >= 0 /\ c.v < Len(Node[cur].cx) THEN Node[cur].cx[c.v + 1] ELSE 0)
  ELSE IF IsParent(c) THEN Node[cur].p
  ELSE IF c.v \in DOMAIN Node[cur].cn THEN Node[cur].cn[c.v] ELSE 0

RECURSIVE ResolveFromNode(_, _)
ResolveFromNode(cur, path) == IF path = <<>> THEN cur ELSE ResolveFromNode(Step(cur, Head(path)), Tail(path))

Resolve(path) == ResolveFromNode(1, path)

\* length of the common prefix of two paths
RECURSIVE Common(_, _)
Common(a, b) == IF a = <<>> \/ b = <<>> \/ ~CompEq(Head(a), Head(b)) THEN 0 ELSE 1 + Common(Tail(a), Tail(b))

Ups(n) == [j \in 1..n |-> Parent]

\* the relative path from object a to the object with absolute path g (as the engine converts it):
\* [rel |-> BOOLEAN, path |-> components]
ToRelative(a, g) ==
  LET own == PathOf(a)
      l == Common(own, g) IN
  IF l = 0 THEN [rel |-> FALSE, path |-> g]
  ELSE [rel |-> TRUE, path |-> Ups(Len(own) - l) \o SubSeq(g, l + 1, Len(g))]

\* resolving a path from object a: relative paths start at a if it is a container, else at its parent
\* (then the first component, which steps out of the object itself, is dropped)
ResolveFrom(a, r) ==
  IF ~r.rel THEN Resolve(r.path)
  ELSE IF Node[a].isC THEN ResolveFromNode(a, r.path)
  ELSE ResolveFromNode(Node[a].p, IF r.path = <<>> THEN <<>> ELSE Tail(r.path))

=============================================================================
