-------------------------------- MODULE InkSem --------------------------------
(***************************************************************************)
(* Source-level operational semantics of core Ink (Tier S, DESIGN.md 3.3): *)
(* the independent reference for property C01.                             *)
(*                                                                         *)
(* A program is an abstract syntax tree whose statement lists ("bodies")   *)
(* are numbered:                                                           *)
(*   Prog.bodies[b]   sequence of statements                               *)
(*   Prog.knots[name] [body, kind ("knot" | "tunnel" | "function"), params]*)
(*   Prog.globals     sequence of [n, v]                                   *)
(*   Prog.root        body that starts the story                           *)
(* The semantics deliberately has NO look-ahead, no snapshot, no patch and *)
(* no rewind: a turn runs from a choice (or the start) to the next stop,   *)
(* every effect happens once, in program order, and the lines of the turn  *)
(* are read off the output stream afterwards (InkOutput!Lines).  That the  *)
(* engine - which does look ahead - delivers the same lines, choices,      *)
(* variables and counts is what C01 claims.                                *)
(*                                                                         *)
(* Statements (field k):                                                   *)
(*   s(v) text, p(e) print, g glue, nl, tag(b: body evaluated as string)   *)
(*   if(br: Seq([c: expr | else, b: body]))                                *)
(*   seq(mode, id, alts: Seq(body))  stopping / cycle / once               *)
(*   set(x, e)  temp(x, e)  div(t)  tun(t)  tret  end  done  thr(t)        *)
(*   ch(cs: Seq(choice), rest: body)  choice block followed by its gather  *)
(*   chc(cs, rest)  choices inside a conditional block (no gather)         *)
(*   gl(label)  gather / labelled point: counts a visit                    *)
(*   call(f, args)  ret(e)                                                 *)
(* Expressions: lit(v) var(n) cnt(n) u(op, a) b(op, a, b) ts(n) cc turns   *)
(*              f(f, args)                                                 *)
(***************************************************************************)
EXTENDS Integers, Sequences, FiniteSets, TLC

CONSTANT Prog

Defs == <<>>          \* no LIST declarations in this fragment
INSTANCE InkValue
O == INSTANCE InkOutput

Body(b) == Prog.bodies[b]
Knot(n) == Prog.knots[n]
IsKnot(n) == n \in DOMAIN Prog.knots

(***************************************************************************)
(* Machine state m                                                         *)
(*   th     stack of threads (top first); a thread is a stack of           *)
(*          activations [kind, fr: stack of frames [b, i], temps, fnStart] *)
(*   out    output stream of the turn                                      *)
(*   ch     pending choices [text, tags, th (thread to resume), body,      *)
(*          rest, label, fb (invisible fallback)]                          *)
(*   vars, cnt (visit counts), tof (turn of last visit), seqc (sequence    *)
(*   counters), turn (turn index, -1 before the first choice)              *)
(*   st     "run" | "wait" (choices offered) | "end" (END / out of content)*)
(*          | "done" (DONE with nothing pending)                           *)
(*   err    "" or the kind of runtime error that has stopped the story and *)
(*          has not been handed to a handler yet                            *)
(*   warns  the warnings raised and not handed to a handler yet             *)
(*   ret    value returned by the function call that just finished         *)
(***************************************************************************)
Frame(b) == [b |-> b, i |-> 1]
Act(kind, b) == [kind |-> kind, fr |-> <<Frame(b)>>, temps |-> <<>>, fnStart |-> 0, fnStart0 |-> 0, cont |-> [mode |-> "drop"],
                 prev |-> <<>>]      \* prev: where a halted element last stood (the containers it was in)

InitVars == [i \in 1..Len(Prog.globals) |-> Prog.globals[i]]
VarMap == [n \in {Prog.globals[i].n : i \in 1..Len(Prog.globals)} |->
             (CHOOSE i \in 1..Len(Prog.globals) : Prog.globals[i].n = n)]

Start ==
  [ th |-> << <<Act("root", Prog.root)>> >>, out |-> <<>>, ch |-> <<>>,
    vars |-> [n \in DOMAIN VarMap |-> Prog.globals[VarMap[n]].v],
    cnt |-> <<>>, tof |-> <<>>, seqc |-> <<>>, turn |-> -1, st |-> "run", err |-> "", warns |-> <<>>, ret |-> [t |-> "void"],
    safe |-> FALSE,
    dirty |-> {},         \* globals that were given a different value since the current continue began (for observers)
    touched |-> {},       \* globals that were assigned at all since then
    calls |-> <<>>,       \* the calls of external functions so far, [f, args]
    last |-> <<>> ]       \* the containers the statement executed last lies in (what a jump by the host "comes from")

Get(f, k, d) == IF k \in DOMAIN f THEN f[k] ELSE d
Put(f, k, v) == (k :> v) @@ f

CurThread(m) == Head(m.th)
CurAct(m) == Head(CurThread(m))
SetThread(m, t) == [m EXCEPT !.th = <<t>> \o Tail(m.th)]
SetAct(m, a) == SetThread(m, <<a>> \o Tail(CurThread(m)))

Count(m, n) == Get(m.cnt, n, 0)
Visit(m, n) == [m EXCEPT !.cnt = Put(m.cnt, n, Count(m, n) + 1), !.tof = Put(m.tof, n, m.turn)]

\* the counted containers (knot, stitch) a body lies in, outermost first - for the "entered from outside" rule
InChain(b) == Prog.ochain[b]
\* the containers entered on the way to the start of a flow: the knot, then the stitch (for a knot that consists of
\* stitches only: its first stitch)
RECURSIVE VisitAll(_, _, _)
VisitAll(m, chain, from) ==
  IF chain = <<>> THEN m
  ELSE VisitAll(IF \E i \in DOMAIN from : from[i] = Head(chain) THEN m ELSE Visit(m, Head(chain)), Tail(chain), from)
CurChain(m) == LET a == CurAct(m) IN IF a.fr = <<>> THEN a.prev ELSE InChain(Head(a.fr).b)
\* entering flow t from where the machine stands now: a container is counted when the position it is entered from
\* is not inside it already.  (A knot that consists of stitches has one statement of its own, the divert to its first
\* stitch: that stitch is entered from the knot's level, i.e. counted even when the divert to the knot was written
\* inside it.)
Enter(m, t) == VisitAll(m, Knot(t).chain, CurChain(m))

\* the only thread of the flow stops where it stands: the pointer of its current element is dropped, the call stack
\* (with its temporary variables) stays as it is
Halted(t) == IF t = <<>> THEN t
             ELSE <<[Head(t) EXCEPT !.fr = <<>>, !.prev = IF Head(t).fr = <<>> THEN Head(t).prev ELSE Prog.ochain[Head(Head(t).fr).b]]>> \o Tail(t)
Halt(m) == [m EXCEPT !.th = << Halted(Head(m.th)) >>]
\* END: the call stack is reset to a single element without position and without temporaries
Fresh == << <<[kind |-> "root", fr |-> <<>>, temps |-> <<>>, fnStart |-> 0, fnStart0 |-> 0, cont |-> [mode |-> "drop"], prev |-> <<>>]>> >>
\* a runtime error: the message is kept, the story is forced to its end (call stack reset, choices dropped)
Fail(m, kind) == [m EXCEPT !.err = kind, !.st = "end", !.th = Fresh, !.ch = <<>>]

(***************************************************************************)
(* Expressions (pure except function calls, which are run by the machine:  *)
(* in this fragment expressions contain no function calls; calls are       *)
(* statements or the right-hand side of set / print, handled below)        *)
(***************************************************************************)
\* (a `ref` parameter holds a pointer [t |-> "ref", v |-> global]: reading it reads the global)
LookupVar(m, n) ==
  LET a == CurAct(m) IN
  IF n \in DOMAIN a.temps THEN (IF a.temps[n].t = "ref" THEN m.vars[a.temps[n].v] ELSE a.temps[n])
  ELSE IF n \in DOMAIN m.vars THEN m.vars[n]
  ELSE I(0)          \* (a temporary whose declaration was never executed reads as 0 - with a warning, see Unknown)

RECURSIVE Eval(_, _)
Eval(m, e) ==
  CASE e.k = "lit" -> e.v
    [] e.k = "var" -> LookupVar(m, e.n)
    [] e.k = "refarg" -> [t |-> "ref", v |-> e.n]        \* the argument for a `ref` parameter: the variable itself
    \* a call of a PURE function (its body is `~ return expr`) anywhere inside an expression: the value of the return
    \* expression with the parameters bound; that the function was entered is counted by the statement (Calls below)
    [] e.k = "pcall" ->
         LET fn == Knot(e.f)
             vals == [i \in 1..Len(e.args) |-> Eval(m, e.args[i])]
             bound == [n \in {fn.params[i] : i \in 1..Len(fn.params)} |-> vals[CHOOSE i \in 1..Len(fn.params) : fn.params[i] = n]]
             a == CurAct(m) IN
         IF \E i \in 1..Len(vals) : vals[i].t = "error" THEN vals[CHOOSE i \in 1..Len(vals) : vals[i].t = "error"]
         ELSE Eval(SetAct(m, [a EXCEPT !.temps = bound]), Body(fn.body)[1].e)
    [] e.k = "cnt" -> I(Count(m, e.n))
    [] e.k = "ts"  -> I(IF e.n \in DOMAIN m.tof THEN m.turn - m.tof[e.n] ELSE -1)
    \* (the same asked of the knot a variable holds: READ_COUNT(x), TURNS_SINCE(x) with x a divert target value)
    [] e.k = "cntv" -> LET v == LookupVar(m, e.n) IN IF v.t = "div" THEN I(Count(m, v.v)) ELSE Err("not a divert target")
    [] e.k = "tsv"  -> LET v == LookupVar(m, e.n) IN
                       IF v.t # "div" THEN Err("not a divert target") ELSE I(IF v.v \in DOMAIN m.tof THEN m.turn - m.tof[v.v] ELSE -1)
    [] e.k = "cc"  -> I(Len(m.ch))
    [] e.k = "turns" -> I(m.turn + 1)
    [] e.k = "u" -> Unary(e.op, Eval(m, e.a))
    [] e.k = "b" -> Binary(e.op, Eval(m, e.a), Eval(m, e.b))

\* the variables read by e that do not exist (yet), in evaluation order: each read raises a warning
RECURSIVE Unknown(_, _)
Unknown(m, e) ==
  CASE e.k = "var" -> IF e.n \in DOMAIN CurAct(m).temps \/ e.n \in DOMAIN m.vars THEN <<>> ELSE <<"novar">>
    [] e.k = "u" -> Unknown(m, e.a)
    [] e.k = "b" -> Unknown(m, e.a) \o Unknown(m, e.b)
    [] OTHER -> <<>>

\* the pure functions an expression calls, in evaluation order (arguments first, then the function, then what its
\* return expression calls): each call enters the function once - a visit
RECURSIVE Calls(_)
RECURSIVE CallsOfAll(_, _)
CallsOfAll(es, i) == IF i > Len(es) THEN <<>> ELSE Calls(es[i]) \o CallsOfAll(es, i + 1)
Calls(e) ==
  CASE e.k = "pcall" -> CallsOfAll(e.args, 1) \o <<e.f>> \o Calls(Body(Knot(e.f).body)[1].e)
    [] e.k = "u" -> Calls(e.a)
    [] e.k = "b" -> Calls(e.a) \o Calls(e.b)
    [] OTHER -> <<>>
RECURSIVE VisitSeq(_, _)
VisitSeq(m, fs) == IF fs = <<>> THEN m ELSE VisitSeq(Visit(m, Head(fs)), Tail(fs))

\* the calls made while e is evaluated UP TO THE POINT WHERE THE EVALUATION FAILS, if it does (operands are evaluated left
\* to right before their operator: in `(g() % zero) + h()` g has been called when the division fails, h has not)
RECURSIVE CallsUntilError(_, _)
RECURSIVE CallsArgsUntilError(_, _, _)
CallsArgsUntilError(m, es, i) ==
  IF i > Len(es) THEN [calls |-> <<>>, err |-> FALSE]
  ELSE LET h == CallsUntilError(m, es[i]) IN
       IF h.err THEN h
       ELSE LET r == CallsArgsUntilError(m, es, i + 1) IN [calls |-> h.calls \o r.calls, err |-> r.err]
CallsUntilError(m, e) ==
  CASE e.k = "pcall" -> LET r == CallsArgsUntilError(m, e.args, 1) IN
                        IF r.err THEN r
                        ELSE [calls |-> r.calls \o <<e.f>> \o Calls(Body(Knot(e.f).body)[1].e), err |-> Eval(m, e).t = "error"]
    [] e.k = "u" -> LET r == CallsUntilError(m, e.a) IN [calls |-> r.calls, err |-> r.err \/ Eval(m, e).t = "error"]
    [] e.k = "b" -> LET l == CallsUntilError(m, e.a) IN
                    IF l.err THEN l
                    ELSE LET r == CallsUntilError(m, e.b) IN
                         [calls |-> l.calls \o r.calls, err |-> r.err \/ Eval(m, e).t = "error"]
    [] OTHER -> [calls |-> <<>>, err |-> Eval(m, e).t = "error"]
CallsMade(m, e) == CallsUntilError(m, e).calls

\* how a value is printed
ValChars(v) ==
  CASE v.t = "int" -> IntChars(v.v)
    [] v.t = "bool" -> IF v.v THEN TrueChars ELSE FalseChars
    [] v.t = "str" -> v.v
    [] OTHER -> <<63>>

TruthyV(v) == IF v.t \in {"bool", "int", "float", "str", "list"} THEN Truthy(v) ELSE FALSE

(***************************************************************************)
(* Text bodies evaluated to a string (choice text, tags): s, p, if only    *)
(***************************************************************************)
RECURSIVE StrOf(_, _, _)
StrOf(m, b, i) ==       \* [text, tags]
  IF i > Len(Body(b)) THEN [text |-> <<>>, tags |-> <<>>]
  ELSE LET s == Body(b)[i]
           rest == StrOf(m, b, i + 1)
           here == CASE s.k = "s" -> [text |-> s.v, tags |-> <<>>]
                     [] s.k = "p" -> [text |-> ValChars(Eval(m, s.e)), tags |-> <<>>]
                     [] s.k = "tag" -> [text |-> <<>>, tags |-> <<O!CleanWs(StrOf(m, s.b, 1).text)>>]
                     [] s.k = "if" ->
                          LET hit == {j \in 1..Len(s.br) : s.br[j].c.k = "else" \/ TruthyV(Eval(m, s.br[j].c))} IN
                          IF hit = {} THEN [text |-> <<>>, tags |-> <<>>]
                          ELSE StrOf(m, s.br[CHOOSE j \in hit : \A j2 \in hit : j <= j2].b, 1)
                     [] OTHER -> [text |-> <<>>, tags |-> <<>>] IN
       [text |-> here.text \o rest.text, tags |-> here.tags \o rest.tags]

(***************************************************************************)
(* Control                                                                 *)
(***************************************************************************)
RECURSIVE ResetFn(_)
ResetFn(t) ==      \* real text has arrived: no function on top of the stack trims the start of its output any more
  IF t = <<>> \/ Head(t).kind # "fn" THEN t ELSE <<[Head(t) EXCEPT !.fnStart = 0]>> \o ResetFn(Tail(t))

Emit(m, it) ==
  LET a == CurAct(m)
      r == O!Push(m.out, it, a.fnStart) IN
  IF r.fnDone THEN SetThread([m EXCEPT !.out = r.out], ResetFn(CurThread(m))) ELSE [m EXCEPT !.out = r.out]

\* advance the instruction pointer of the top frame
Advance(m) ==
  LET a == CurAct(m)
      f == Head(a.fr) IN
  SetAct(m, [a EXCEPT !.fr = <<[f EXCEPT !.i = f.i + 1]>> \o Tail(a.fr)])

PushFrame(m, b) == LET a == CurAct(m) IN SetAct(m, [a EXCEPT !.fr = <<Frame(b)>> \o a.fr])

\* jump of the current activation to the start of a knot / stitch / label: the frames of the activation are replaced
\* entering a knot from outside counts a visit
Goto(m, target) ==
  IF target = "END" THEN [m EXCEPT !.st = "end", !.th = Fresh, !.safe = TRUE, !.ch = <<>>]
  ELSE IF target = "DONE" THEN
       \* the current thread is over; an older thread goes on, otherwise the turn stops
       IF Len(m.th) > 1 THEN [m EXCEPT !.th = Tail(m.th)] ELSE [Halt(m) EXCEPT !.st = "stopping", !.safe = TRUE]
  ELSE IF target \in DOMAIN Prog.labels THEN
       \* a divert to a labelled gather: the flow goes on at the gather (which counts its own visit); the knot and
       \* stitch it lies in are entered if the divert comes from outside them
       LET b == Prog.labels[target].body
           m1 == VisitAll(m, InChain(b), CurChain(m))
           a == CurAct(m1) IN
       SetAct(m1, [a EXCEPT !.fr = <<Frame(b)>>])
  ELSE IF ~IsKnot(target) THEN Fail(m, "divert target not found")
  ELSE LET m1 == Enter(m, target)
           a == CurAct(m1) IN
       SetAct(m1, [a EXCEPT !.fr = <<Frame(Knot(target).body)>>])

\* Parameters of knots: the arguments of a divert, a tunnel call or a thread start are evaluated where the divert stands
\* and become temporaries of the call-stack element the knot runs in (the current one for a divert and for a thread -
\* whose stack is a copy -, a new one for a tunnel)
ArgsOf(s) == IF "args" \in DOMAIN s THEN s.args ELSE <<>>
ArgVals(m, s) == LET as == ArgsOf(s) IN [i \in 1..Len(as) |-> Eval(m, as[i])]
Bound(target, vals, temps) ==
  IF ~IsKnot(target) \/ vals = <<>> THEN temps
  ELSE LET ps == Knot(target).params IN
       [n \in {ps[i] : i \in 1..Len(ps)} |-> LET i == CHOOSE i \in 1..Len(ps) : ps[i] = n IN IF i <= Len(vals) THEN vals[i] ELSE I(0)] @@ temps
BadArgs(vals) == \E i \in 1..Len(vals) : vals[i].t = "error"
ArgError(vals) == vals[CHOOSE i \in 1..Len(vals) : vals[i].t = "error"].v

\* assignment to a temporary of the current activation if there is one of that name, else to the global
Assign(m, x0, v) ==
  LET a == CurAct(m)
      through == x0 \in DOMAIN a.temps /\ a.temps[x0].t = "ref"        \* (writing a `ref` parameter writes the global)
      x == IF through THEN a.temps[x0].v ELSE x0 IN
  IF ~through /\ x \in DOMAIN a.temps THEN SetAct(m, [a EXCEPT !.temps = Put(a.temps, x, v)])
  ELSE [m EXCEPT !.vars = Put(m.vars, x, v), !.touched = m.touched \cup {x},
                 !.dirty = IF x \in DOMAIN m.vars /\ m.vars[x] = v THEN m.dirty ELSE m.dirty \cup {x}]

\* the value v of a call (of a function of the story, or of an external function of the host) reaches the place the call
\* stands at - printed, assigned, or dropped; for a call that is an operand, the expression around it is evaluated with
\* the value as the variable "$ret".  m1: the machine with the caller on top.
Deliver(m1, cont, v) ==
  LET c == CurAct(m1)
      withRet == SetAct(m1, [c EXCEPT !.temps = Put(c.temps, "$ret", v)])
      ev == IF cont.mode \in {"printexpr", "setexpr", "tempexpr"} THEN Eval(withRet, cont.e) ELSE v IN
  CASE cont.mode = "print" -> IF v.t = "void" THEN m1 ELSE Emit(m1, O!T(ValChars(v)))
    [] cont.mode = "set" -> Assign(m1, cont.x, v)
    [] cont.mode = "printexpr" -> IF ev.t = "error" THEN Fail(m1, ev.v) ELSE Emit(m1, O!T(ValChars(ev)))
    [] cont.mode = "setexpr" -> IF ev.t = "error" THEN Fail(m1, ev.v) ELSE Assign(m1, cont.x, ev)
    [] cont.mode = "temp" -> SetAct(m1, [c EXCEPT !.temps = Put(c.temps, cont.x, v)])
    [] cont.mode = "tempexpr" -> IF ev.t = "error" THEN Fail(m1, ev.v) ELSE SetAct(m1, [c EXCEPT !.temps = Put(c.temps, cont.x, ev)])
    [] OTHER -> m1

\* a function call ends with value v (void: nothing): whitespace it produced at its end is dropped, the caller goes on
\* with the value
FnReturn(m, v) ==
  LET t == CurThread(m)
      a == Head(t)
      \* (trimmed back to where the function started, or - once the function has printed real text, which ends the
      \* start trimming - simply back to the last real text)
      m1 == SetThread([m EXCEPT !.out = O!TrimFunctionEnd(m.out, IF a.fnStart = 0 THEN 1 ELSE a.fnStart)], Tail(t)) IN
  IF a.cont.mode = "game"
  THEN \* a function evaluation started by the host: nothing is trimmed, the frame stays (without position) until the
       \* host has taken the result
       [SetThread(m, <<[a EXCEPT !.fr = <<>>]>> \o Tail(t)) EXCEPT !.ret = v, !.st = "stopping", !.safe = TRUE]
  ELSE Deliver(m1, a.cont, v)

\* the body under execution is exhausted
PopFrame(m) ==
  LET t == CurThread(m)
      a == Head(t) IN
  IF Len(a.fr) > 1 THEN SetAct(m, [a EXCEPT !.fr = Tail(a.fr)])
  ELSE \* the activation has run out of content
       IF a.kind \in {"fn", "game"} THEN FnReturn(m, [t |-> "void"])      \* implicit return of a function: void
       ELSE \* out of content (in a tunnel, too: nothing returns implicitly): a forked thread gives way to the thread
            \* below it, otherwise the flow stops - an error unless choices are on offer (Settle)
            IF Len(m.th) > 1 THEN [m EXCEPT !.th = Tail(m.th)]
            ELSE [Halt(m) EXCEPT !.st = "stopping"]

\* generate the choices of a block, in order
RECURSIVE GenChoices(_, _, _, _)
GenChoices(m0, cs, i, rest) ==
  IF i > Len(cs) THEN m0
  ELSE LET c == cs[i]
           \* (all conditions of a choice are evaluated, whatever the earlier ones gave: their calls are made)
           m == VisitSeq(m0, CallsOfAll(c.conds, 1))
           condsOk == \A j \in 1..Len(c.conds) : TruthyV(Eval(m, c.conds[j]))
           start == StrOf(m, c.start, 1)
           only == StrOf(m, c.only, 1)
           once == ~c.sticky /\ Count(m, c.cid) > 0
           t == CurThread(m)
           a == Head(t)
           \* when chosen: the choice's own output (start + inner), its body, then the gather and what follows it
           resume == <<[a EXCEPT !.fr = <<Frame(c.out), Frame(c.body), Frame(rest)>> \o Tail(a.fr)]>> \o Tail(t)
           item == [text |-> O!CleanWs(start.text \o only.text), tags |-> start.tags \o only.tags, th |-> resume,
                    cid |-> c.cid, fb |-> c.fb] IN
       IF condsOk /\ ~once THEN GenChoices([m EXCEPT !.ch = Append(m.ch, item)], cs, i + 1, rest)
       ELSE GenChoices(m, cs, i + 1, rest)

\* a call of an external function: the host is handed the argument values in order (noted in m.calls) and answers with
\* a value - here the linear function of its arguments that the test host implements
RECURSIVE Lin(_, _, _, _)
Lin(coef, vals, i, acc) ==
  IF i > Len(vals) THEN acc
  ELSE Lin(coef, vals, i + 1, Add32(acc, Mul32(IF i <= Len(coef) THEN coef[i] ELSE 1, IF vals[i].t = "int" THEN vals[i].v ELSE IF vals[i].t = "bool" /\ vals[i].v THEN 1 ELSE 0)))
ExtCall(m, s) ==
  LET x == Prog.externs[s.f]
      vals == [i \in 1..Len(s.args) |-> Eval(m, s.args[i])]
      v == I(Lin(x.coef, vals, 1, x.add))
      \* A function that is not safe to run in look-ahead makes the engine deliver the line before it is called: a
      \* newline waiting at the end of the stream is final from here on - glue or the end of a function can no longer
      \* take it back.
      out1 == IF ~x.safe /\ O!EndsInNewline(m.out) THEN Append(m.out, [k |-> "commit"]) ELSE m.out
      m1 == Advance([m EXCEPT !.calls = Append(m.calls, [f |-> s.f, args |-> vals]), !.out = out1]) IN
  IF \E i \in 1..Len(vals) : vals[i].t = "error" THEN Fail(m, "argument")
  ELSE Deliver(m1, [mode |-> s.mode, x |-> s.x, e |-> s.e], v)

\* one statement
Exec(m, s) ==
  CASE s.k = "s"   -> Advance(Emit(m, O!T(s.v)))
    [] s.k = "p"   -> LET v == Eval(m, s.e)
                          mw == VisitSeq([m EXCEPT !.warns = m.warns \o Unknown(m, s.e)], CallsMade(m, s.e)) IN
                      IF v.t = "error" THEN Fail(mw, v.v) ELSE Advance(Emit(mw, O!T(ValChars(v))))
    [] s.k = "g"   -> Advance(Emit(m, O!GLUE))
    [] s.k = "nl"  -> Advance(Emit(m, O!NL))
    [] s.k = "tag" -> Advance(Emit(m, O!TAG(StrOf(m, s.b, 1).text)))
    [] s.k = "set" -> LET v == Eval(m, s.e) IN
                      IF v.t = "error" THEN Fail(VisitSeq(m, CallsMade(m, s.e)), v.v)
                      ELSE Advance(Assign(VisitSeq(m, Calls(s.e)), s.x, v))
    [] s.k = "call" -> \* f(args) as a statement (mode drop), printed (print), assigned (set / temp, x), or as an operand of
                      \* the expression e that is printed or assigned (printexpr / setexpr / tempexpr): e refers to the
                      \* returned value as the variable "$ret"
                      IF s.f \in DOMAIN Prog.externs THEN ExtCall(m, s) ELSE
                      LET fn == Knot(s.f)
                          vals == [i \in 1..Len(s.args) |-> Eval(m, s.args[i])]
                          temps == [n \in {fn.params[i] : i \in 1..Len(fn.params)} |->
                                      vals[CHOOSE i \in 1..Len(fn.params) : fn.params[i] = n]]
                          m1 == Advance(Enter(m, s.f))
                          act == [kind |-> "fn", fr |-> <<Frame(fn.body)>>, temps |-> temps, fnStart |-> Len(m.out) + 1,
                                  fnStart0 |-> Len(m.out) + 1, cont |-> [mode |-> s.mode, x |-> s.x, e |-> s.e], prev |-> <<>>] IN
                      IF \E i \in 1..Len(vals) : vals[i].t = "error" THEN Fail(m, "argument")
                      ELSE SetThread(m1, <<act>> \o CurThread(m1))
    [] s.k = "ret" -> IF CurAct(m).kind \notin {"fn", "game"} THEN Fail(m, "return outside a function")
                      ELSE LET v == IF s.e.k = "void" THEN [t |-> "void"] ELSE Eval(m, s.e) IN
                           IF v.t = "error" THEN Fail(m, v.v)
                           ELSE FnReturn(IF s.e.k = "void" THEN m ELSE VisitSeq(m, Calls(s.e)), v)
    [] s.k = "temp" -> LET v == Eval(m, s.e)
                           mc == VisitSeq(m, CallsMade(m, s.e))
                           a == CurAct(mc) IN
                       IF v.t = "error" THEN Fail(mc, v.v) ELSE Advance(SetAct(mc, [a EXCEPT !.temps = Put(a.temps, s.x, v)]))
    [] s.k = "if"  -> LET hit == {j \in 1..Len(s.br) : s.br[j].c.k = "else" \/ TruthyV(Eval(m, s.br[j].c))}
                          first == IF hit = {} THEN Len(s.br) ELSE CHOOSE j \in hit : \A j2 \in hit : j <= j2
                          \* (the conditions are evaluated one after the other until one holds: so many calls are made)
                          tried == [j \in 1..first |-> IF s.br[j].c.k = "else" THEN [k |-> "lit"] ELSE s.br[j].c]
                          mc == VisitSeq(m, CallsOfAll(tried, 1)) IN
                      IF hit = {} THEN Advance(mc)
                      ELSE PushFrame(Advance(mc), s.br[first].b)
    [] s.k = "seq" -> LET n == Get(m.seqc, s.id, 0)
                          len == Len(s.alts)
                          idx == CASE s.mode = "stop" -> IF n >= len THEN len ELSE n + 1
                                   [] s.mode = "cycle" -> (n % len) + 1
                                   [] s.mode = "once" -> IF n >= len THEN 0 ELSE n + 1
                          m1 == [m EXCEPT !.seqc = Put(m.seqc, s.id, n + 1)] IN
                      IF idx = 0 THEN Advance(m1) ELSE PushFrame(Advance(m1), s.alts[idx])
    [] s.k = "div" -> LET vals == ArgVals(m, s)
                          m1 == Goto(m, s.t)
                          a == CurAct(m1) IN
                      IF BadArgs(vals) THEN Fail(m, ArgError(vals))
                      ELSE IF vals = <<>> \/ m1.err # "" THEN m1 ELSE SetAct(m1, [a EXCEPT !.temps = Bound(s.t, vals, a.temps)])
    \* a divert / tunnel call through a variable that holds a divert target value [t |-> "div", v |-> knot]
    \* The value names the knot ITSELF, not its first piece of content: arriving there counts a visit of the knot
    \* wherever the divert was written - also inside the knot, where a divert by name would not count one.
    [] s.k = "divv" -> LET v == LookupVar(m, s.x) IN
                       IF v.t # "div" \/ ~IsKnot(v.v) THEN Fail(m, "not a divert target")
                       ELSE LET m1 == VisitAll(m, Knot(v.v).chain, <<>>)
                                a == CurAct(m1) IN
                            SetAct(m1, [a EXCEPT !.fr = <<Frame(Knot(v.v).body)>>])
    [] s.k = "tunv" -> LET v == LookupVar(m, s.x) IN
                       IF v.t # "div" \/ ~IsKnot(v.v) THEN Fail(m, "not a divert target")
                       ELSE LET m1 == Advance(VisitAll(m, Knot(v.v).chain, <<>>)) IN
                            SetThread(m1, <<Act("tunnel", Knot(v.v).body)>> \o CurThread(m1))
    [] s.k = "gl"  -> Advance(Visit(m, s.label))
    [] s.k = "tun" -> IF ~IsKnot(s.t) THEN Fail(m, "tunnel target not found")
                      ELSE LET vals == ArgVals(m, s)
                               m1 == Advance(Enter(m, s.t)) IN
                           IF BadArgs(vals) THEN Fail(m, ArgError(vals))
                           ELSE SetThread(m1, <<[Act("tunnel", Knot(s.t).body) EXCEPT !.temps = Bound(s.t, vals, <<>>)]>> \o CurThread(m1))
    [] s.k = "tret" -> LET t == CurThread(m) IN
                       IF Head(t).kind # "tunnel" THEN Fail(m, "tunnel return outside a tunnel") ELSE SetThread(m, Tail(t))
    [] s.k = "thr" -> IF ~IsKnot(s.t) THEN Fail(m, "thread target not found")
                      ELSE LET vals == ArgVals(m, s)
                               m1 == Advance(Enter(m, s.t))
                               t == CurThread(m1)
                               a == Head(t)
                               fork == <<[a EXCEPT !.fr = <<Frame(Knot(s.t).body)>>, !.kind = IF a.kind = "root" THEN "thread" ELSE a.kind,
                                                   !.temps = Bound(s.t, vals, a.temps)]>> \o Tail(t) IN
                           IF BadArgs(vals) THEN Fail(m, ArgError(vals)) ELSE [m1 EXCEPT !.th = <<fork>> \o m1.th]
    [] s.k = "ch"  -> \* the choices are generated; what follows them in the source belongs to the gather (rest), which is
                      \* reached only through a choice: this thread of the flow is over
                      LET m1 == GenChoices(m, s.cs, 1, s.rest) IN
                      IF Len(m1.th) > 1 THEN [m1 EXCEPT !.th = Tail(m1.th)] ELSE [Halt(m1) EXCEPT !.st = "stopping"]
    [] s.k = "chc" -> \* choices written inside a conditional block: they are generated and the flow goes on after the block
                      Advance(GenChoices(m, s.cs, 1, s.rest))
    [] s.k = "end" -> Goto(m, "END")
    [] s.k = "done" -> Goto(m, "DONE")
    [] OTHER -> Fail(m, "unknown statement")

\* one small step of a running machine
StepM(m) ==
  LET t == CurThread(m) IN
  IF t = <<>> \/ Head(t).fr = <<>> THEN [m EXCEPT !.st = "stopping"]
  ELSE LET f == Head(Head(t).fr) IN
       IF f.i > Len(Body(f.b)) THEN PopFrame(m)
       ELSE LET m1 == Exec(m, Body(f.b)[f.i]) IN
            \* (END forgets where the story stood, like a reset of the call stack)
            [m1 EXCEPT !.last = IF m1.st = "end" THEN <<>> ELSE InChain(f.b)]

\* the flow has stopped: follow an invisible fallback if it is the only thing on offer, else wait / end
Settle(m) ==
  LET vis == SelectSeq(m.ch, LAMBDA c : ~c.fb)
      fbs == SelectSeq(m.ch, LAMBDA c : c.fb) IN
  IF vis = <<>> /\ fbs # <<>> THEN
       LET c == fbs[1] IN
       Visit([m EXCEPT !.th = <<c.th>>, !.ch = <<>>, !.st = "run", !.safe = FALSE], c.cid)
  ELSE IF vis # <<>> THEN [m EXCEPT !.st = "wait"]      \* (an invisible default stays in the list; the host is not shown it)
  ELSE IF m.st = "end" \/ m.safe THEN [m EXCEPT !.st = "over"]
  ELSE [m EXCEPT !.st = "out"]        \* out of content without END / DONE / choices

\* the player picks the i-th visible choice (0-based)
Visible(m) == SelectSeq(m.ch, LAMBDA c : ~c.fb)
Choose(m, i) ==
  LET c == Visible(m)[i + 1] IN
  Visit([m EXCEPT !.th = <<c.th>>, !.ch = <<>>, !.out = <<>>, !.st = "run", !.turn = m.turn + 1, !.safe = FALSE], c.cid)

=============================================================================
