---------------------------- MODULE InkHostTrace ----------------------------
(***************************************************************************)
(* Trace validation of recorded implementation runs against InkHostAbs     *)
(* (DESIGN.md 4.4).                                                        *)
(*                                                                         *)
(* Input (written by tools/convert.py from inkdrive records):              *)
(*   IOEnv.TRIE   ndjson, one line per position of the reference system    *)
(*                built from the BASE RUNS of the same build               *)
(*   IOEnv.TRACE  ndjson, one line per public call of the probed runs      *)
(* All observation components are interned small integers; equality of     *)
(* canonical JSON is decided by the converter, the protocol by this spec.  *)
(*                                                                         *)
(* The behaviour of this specification is a single line: one state per     *)
(* consumed event.  An event that the abstract specification does not      *)
(* allow is reported (PrintT "MISMATCH") and the rest of its case skipped, *)
(* so that one TLC run reports every failing case of a batch.              *)
(***************************************************************************)
EXTENDS Naturals, Integers, Sequences, FiniteSets, TLC, Json, IOUtils

TrieRecs == ndJsonDeserialize(IOEnv.TRIE)
Ev == ndJsonDeserialize(IOEnv.TRACE)

NN == Len(TrieRecs)
Kids == [n \in 1..NN |-> TrieRecs[n].kids]
NObs == [n \in 1..NN |-> TrieRecs[n].o]
NRes == [n \in 1..NN |-> TrieRecs[n].res]
NCb  == [n \in 1..NN |-> TrieRecs[n].cb]
NVal == [n \in 1..NN |-> TrieRecs[n].val]

INSTANCE InkHostAbs
INSTANCE InkHostRules

VARIABLES l,      \* index of the next event
          st,     \* instance -> abstract state (of the current case)
          slots,  \* slot name -> saved abstract state
          cs,     \* [case, skip, probed, c = the case's configuration event]
          nbad    \* number of mismatches so far

vars == <<l, st, slots, cs, nbad>>

Range(f) == {f[x] : x \in DOMAIN f}

\* compare two observations on the components named in cmp; result: "" or the first differing name
DiffOn(a, b, cmp) ==
  LET d == {k \in 1..Len(cmp) : a[cmp[k]] # b[cmp[k]]} IN
  IF d = {} THEN "" ELSE cmp[CHOOSE k \in d : \A j \in d : k <= j]

\* per-flow projections of globals and counts (multi-flow cases only)
PfDiff(s, o) ==
  LET d == {g \in Alive(s) : g \in DOMAIN o.pf /\ g \in DOMAIN NObs[s.pos[g]].pf
                               /\ o.pf[g] # NObs[s.pos[g]].pf[g]} IN
  IF d = {} THEN "" ELSE "pf:" \o (CHOOSE g \in d : TRUE)

Verdict(rule, comp) == [ok |-> FALSE, rule |-> rule, comp |-> comp]
Good == [ok |-> TRUE, rule |-> "", comp |-> ""]

ObsVerdict(rule, s, o, cmp, pf) ==
  LET d == DiffOn(o, s.last, cmp) IN
  IF d # "" THEN Verdict(rule, d)
  ELSE IF pf /\ PfDiff(s, o) # "" THEN Verdict(rule, PfDiff(s, o))
  ELSE Good

(***************************************************************************)
(* One rule per class of event.  Each yields [v |-> verdict, s |-> state   *)
(* after, sl |-> slots after].                                             *)
(***************************************************************************)
Out(v, s, sl) == [v |-> v, s |-> s, sl |-> sl, rej |-> FALSE]
OutRej(v, s, sl) == [v |-> v, s |-> s, sl |-> sl, rej |-> TRUE]

\* the valid operation `lab` of the reference system
RValid(s, e, lab, F(_, _)) ==
  IF ~HasKid(Here(s), lab) THEN Out(Verdict("Uncovered", lab), s, slots)
  ELSE LET t0 == F(s, lab)
           n == Here(t0)
           t == Track(t0, e)
           cr == CallbackRulesOn(s, e, NObs[n], cs.c) IN
       IF e.res # NRes[n] /\ cs.c.cmpres THEN Out(Verdict("Valid.result", e.res), t, slots)
       ELSE IF e.cb # NCb[n] /\ cs.c.cmpcb THEN Out(Verdict("Valid.callbacks", ""), t, slots)
       ELSE IF e.val # NVal[n] /\ cs.c.cmpval THEN Out(Verdict("Valid.value", ""), t, slots)
       ELSE IF cr # "" THEN Out(Verdict(cr, ""), t, slots)
       ELSE Out(ObsVerdict("Valid.observation", t, e.o, cs.c.cmp, cs.c.pf), t, slots)

\* a call that must be refused and must change nothing (C09; during a pending slice: C08)
RBad(s, e, rule) ==
  IF e.res = "panic" \/ e.res = "abort" THEN OutRej(Verdict(rule \o ".panic", ""), s, slots)
  ELSE IF e.res # "err" /\ ~e.lenient THEN OutRej(Verdict(rule \o ".accepted", e.res), s, slots)
  ELSE IF e.cb # <<>> THEN OutRej(Verdict(rule \o ".callbacks", ""), s, slots)
  ELSE OutRej(ObsVerdict(rule \o ".changed", s, e.o, cs.c.cmpall, FALSE), s, slots)

RCont(s, e) ==
  IF s.pend THEN
     \* a blocking continue completes an unfinished time-limited one
     LET r == RValid(s, [e EXCEPT !.cb = s.acc \o e.cb], "c", LAMBDA x, y : FinishF(x)) IN r
  ELSE IF ContAccepted(s) THEN RValid(s, e, "c", ValidF) ELSE RBad(s, e, "Rejected.cont")

RChoose(s, e) ==
  IF ~s.pend /\ ChooseAccepted(s, e.k) THEN RValid(s, e, e.lab, ValidF)
  ELSE RBad(s, e, "Rejected.choose")

RSlice(s, e) ==
  IF ~s.pend /\ ~ContAccepted(s) THEN RBad(s, e, "Rejected.cont_async")
  ELSE IF e.fin THEN RValid(s, [e EXCEPT !.cb = s.acc \o e.cb], "c", LAMBDA x, y : FinishF(x))
  ELSE IF e.res # "ok" THEN Out(Verdict("Slice.result", e.res), s, slots)
  ELSE Out(Good, [SliceF(s, e.cb) EXCEPT !.last = e.o], slots)

RSave(s, e) ==
  IF e.res # "ok" THEN Out(Verdict("Save.result", e.res), s, slots)
  ELSE LET v == ObsVerdict("Save.changed", s, e.o, cs.c.cmpall, FALSE) IN
       Out(v, s, (e.slot :> SaveSlot(s, e.o.save)) @@ slots)

RLoad(s, e) ==
  IF e.slot \notin DOMAIN slots THEN Out(Verdict("Uncovered", "slot"), s, slots)
  ELSE IF e.res # "ok" THEN Out(Verdict("Load.result", e.res), s, slots)
  ELSE LET t == LoadF(s, slots[e.slot])
           v == ObsVerdict("Load.observation", t, e.o, cs.c.cmp, cs.c.pf) IN
       IF v.ok /\ cs.c.cmpsave /\ e.o.save # slots[e.slot].save
       THEN Out(Verdict("Load.resave", "save"), t, slots)
       ELSE Out(v, t, slots)

RReset(s, e) ==
  IF s.pend THEN RBad(s, e, "Guarded.reset")
  ELSE IF e.res # "ok" THEN Out(Verdict("Reset.result", e.res), s, slots)
  ELSE LET t == ResetF(s) IN Out(ObsVerdict("Reset.observation", t, e.o, cs.c.cmp, FALSE), t, slots)

REval(s, e) ==
  IF s.pend THEN RBad(s, e, "Guarded.eval")
  ELSE IF e.res # "ok" THEN Out(Verdict("Eval.result", e.res), s, slots)
  ELSE LET t == EvalF(s, e.key, e.val)
           v == ObsVerdict("Eval.disturbed", s, e.o, cs.c.cmpall, FALSE) IN
       IF ~v.ok THEN Out(v, t, slots)
       ELSE IF e.key \in DOMAIN s.memo /\ s.memo[e.key] # e.val THEN Out(Verdict("Eval.repeat", ""), t, slots)
       ELSE IF e.expect # 0 /\ e.expect # e.val THEN Out(Verdict("Eval.value", ""), t, slots)
       ELSE Out(Good, t, slots)

RSwitch(s, e) ==
  IF s.pend THEN RBad(s, e, "Guarded.switch")
  ELSE IF e.res # "ok" THEN Out(Verdict("Switch.result", e.res), s, slots)
  ELSE LET t0 == IF e.cls = "switchdef" THEN SwitchDefaultF(s) ELSE SwitchF(s, e.f)
           t == [t0 EXCEPT !.last = NObs[Here(t0)]] IN
       Out(ObsVerdict("Switch.observation", t, e.o, cs.c.cmp, cs.c.pf), t, slots)

RRemove(s, e) ==
  IF e.f = DefaultFlow \/ e.f \notin Alive(s) THEN RBad(s, e, "Rejected.remove_flow")
  ELSE IF e.res # "ok" THEN Out(Verdict("Remove.result", e.res), s, slots)
  ELSE LET t0 == RemoveF(s, e.f)
           t == [t0 EXCEPT !.last = NObs[Here(t0)]] IN
       Out(ObsVerdict("Remove.observation", t, e.o, cs.c.cmp, cs.c.pf), t, slots)

\* operations outside the tracked reference system: no rule except "no panic"
RFree(s, e) ==
  IF e.res = "panic" \/ e.res = "abort"
  THEN Out(Verdict(IF cs.c.nopanic THEN "Fault.panic" ELSE "Handoff.C04", e.op), s, slots)
  ELSE Out(Good, FreeF(s, e.o), slots)

\* a jump with call-stack reset keeps globals and counts, abandons tunnels, threads, functions (C17)
RJumpReset(s, e) ==
  IF e.res # "ok" THEN Out(Verdict("Jump.result", e.res), s, slots)
  ELSE IF e.o.vars # s.last.vars THEN Out(Verdict("Jump.variables", "vars"), FreeF(s, e.o), slots)
  ELSE IF e.ja # e.jb THEN Out(Verdict("Jump.counts", "visits"), FreeF(s, e.o), slots)
  ELSE IF e.o.frames # 1 \/ e.o.nthreads # 1 THEN Out(Verdict("Jump.callstack", "frames"), FreeF(s, e.o), slots)
  ELSE Out(Good, FreeF(s, e.o), slots)

\* a host assignment between continues: a valid operation with its own notification rule (C11)
RSetVar(s, e) ==
  LET r == RValid(s, e, e.lab, ValidF)
      nr == IF cs.c.chk11 /\ e.res = "ok" THEN SetVarNotifyRule(s, e) ELSE "" IN
  IF r.v.ok /\ nr # "" THEN Out(Verdict(nr, ""), r.s, slots) ELSE r

\* registrations and host assignments that the reference runs do not contain: the position does not
\* move, the registration set does (C11: they may be added and removed at arbitrary points)
RRegFree(s, e) ==
  IF e.res # "ok" THEN Out(Verdict("Register.result", e.res), s, slots)
  ELSE IF e.op = "set_var" /\ cs.c.chk11 /\ SetVarNotifyRule(s, e) # ""
       THEN Out(Verdict(SetVarNotifyRule(s, e), ""), Track(s, e), slots)
  ELSE Out(Good, [Track(s, e) EXCEPT !.last = e.o], slots)

Rule(s, e) ==
  CASE e.cls = "skip" -> Out(Good, s, slots)
    [] e.cls = "regfree" -> RRegFree(s, e)
    [] e.cls = "setvar" -> IF s.pend THEN RBad(s, e, "Guarded.set_var") ELSE RSetVar(s, e)
    [] e.cls = "free" \/ (s.lost /\ e.cls \in {"valid", "cont", "choose", "reg", "slice", "switch", "switchdef", "remove", "eval", "bad"}) -> RFree(s, e)
    [] e.cls = "jumpreset" -> RJumpReset(s, e)
    [] e.cls = "valid"    -> IF s.pend THEN RBad(s, e, "Guarded.call") ELSE RValid(s, e, e.lab, ValidF)
    [] e.cls = "reg"      -> IF s.pend THEN RBad(s, e, "Guarded.register") ELSE RValid(s, e, e.lab, RegisterF)
    [] e.cls = "bad"      -> RBad(s, e, "Rejected." \o e.op)
    [] e.cls = "cont"     -> RCont(s, e)
    [] e.cls = "choose"   -> RChoose(s, e)
    [] e.cls = "slice"    -> RSlice(s, e)
    [] e.cls = "save"     -> RSave(s, e)
    [] e.cls = "load"     -> RLoad(s, e)
    [] e.cls = "reset"    -> RReset(s, e)
    [] e.cls = "eval"     -> REval(s, e)
    [] e.cls = "switch"   -> RSwitch(s, e)
    [] e.cls = "switchdef" -> RSwitch(s, e)
    [] e.cls = "remove"   -> RRemove(s, e)
    [] OTHER              -> Out(Verdict("UnknownClass", e.cls), s, slots)

(***************************************************************************)
(* The trace specification.                                                *)
(***************************************************************************)
Init ==
  /\ l = 1
  /\ st = <<>>
  /\ slots = <<>>
  /\ cs = [case |-> -1, skip |-> FALSE, probed |-> FALSE, c |-> <<>>]
  /\ nbad = 0

\* first event of a case: class "case" carries the comparison configuration
StartCase ==
  /\ l <= Len(Ev) /\ Ev[l].cls = "case"
  /\ cs' = [case |-> Ev[l].case, skip |-> FALSE,
            probed |-> Ev[l].chk11 \/ Ev[l].chk12 # "" \/ Ev[l].chk13 # "" \/ Ev[l].probed, c |-> Ev[l]]
  /\ st' = <<>> /\ slots' = <<>> /\ l' = l + 1 /\ UNCHANGED nbad

Skip ==
  /\ l <= Len(Ev) /\ Ev[l].cls # "case" /\ cs.skip
  /\ l' = l + 1 /\ UNCHANGED <<st, slots, cs, nbad>>

NewInstance ==
  /\ l <= Len(Ev) /\ ~cs.skip /\ Ev[l].cls = "new"
  /\ LET e == Ev[l]
         s == Fresh(e.root, e.froot)
         d == IF e.res = "ok" THEN DiffOn(e.o, s.last, cs.c.cmp) ELSE "result" IN
     IF d = "" THEN /\ st' = (e.i :> s) @@ st
                    /\ UNCHANGED <<cs, nbad>>
     ELSE /\ PrintT(<<"MISMATCH", l, cs.case, IF cs.probed THEN "New.observation" ELSE "Calib.new", d>>)
          /\ cs' = [cs EXCEPT !.skip = TRUE] /\ nbad' = nbad + 1 /\ UNCHANGED st
  /\ l' = l + 1 /\ UNCHANGED slots

Drop ==
  /\ l <= Len(Ev) /\ ~cs.skip /\ Ev[l].cls = "drop"
  /\ st' = [j \in (DOMAIN st) \ {Ev[l].i} |-> st[j]]
  /\ l' = l + 1 /\ UNCHANGED <<slots, cs, nbad>>

Call ==
  /\ l <= Len(Ev) /\ ~cs.skip /\ Ev[l].cls \notin {"case", "new", "drop"}
  /\ LET e == Ev[l] IN
     IF e.i \notin DOMAIN st
     THEN /\ PrintT(<<"MISMATCH", l, cs.case, "Uncovered", "instance">>)
          /\ cs' = [cs EXCEPT !.skip = TRUE] /\ nbad' = nbad + 1 /\ UNCHANGED <<st, slots>>
     ELSE LET r == Rule(st[e.i], e)
              probe == e.cls \notin {"valid", "reg", "cont", "choose", "free", "skip", "regfree"} \/ r.rej IN
          IF r.v.ok
          THEN /\ st' = [st EXCEPT ![e.i] = [r.s EXCEPT !.vm = e.vm]]
               /\ slots' = r.sl
               /\ cs' = [cs EXCEPT !.probed = cs.probed \/ probe]
               /\ UNCHANGED nbad
          ELSE /\ PrintT(<<"MISMATCH", l, cs.case,
                           IF cs.probed \/ probe \/ r.v.rule = "Uncovered" THEN r.v.rule ELSE "Calib." \o r.v.rule,
                           r.v.comp>>)
               /\ cs' = [cs EXCEPT !.skip = TRUE] /\ nbad' = nbad + 1
               /\ UNCHANGED <<st, slots>>
  /\ l' = l + 1

Next == StartCase \/ Skip \/ NewInstance \/ Drop \/ Call

Spec == Init /\ [][Next]_vars

\* acceptance: every event consumed (the graph is a line, so the diameter says how far we got)
AllConsumed ==
  /\ PrintT(<<"CONSUMED", TLCGet("stats").diameter - 1, Len(Ev), NN>>)
  /\ TLCGet("stats").diameter - 1 = Len(Ev)

=============================================================================
