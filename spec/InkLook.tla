-------------------------------- MODULE InkLook --------------------------------
(***************************************************************************)
(* The engine's line-at-a-time continue: LOOK-AHEAD with snapshot and      *)
(* rewind, as a mechanism over the machine of InkSem.                      *)
(*                                                                         *)
(* InkSem says what a turn means (every statement once, in order).  The    *)
(* engine delivers a turn one line per `cont`: having reached a newline it *)
(* keeps stepping - the newline might still be removed by glue - with a    *)
(* snapshot of the state at the newline; when real text or a tag follows,  *)
(* the state is REWOUND to the snapshot and the line is delivered; when    *)
(* the newline disappears the snapshot is dropped; when the content runs   *)
(* out the look-ahead state is kept.  This module is that loop             *)
(* (runtime/src/story/progress.rs: continue_single_step,                   *)
(* calculate_newline_output_state_change, the tail of continue_internal).  *)
(* Two things are checked with it (spec/InkLookTrace.tla):                 *)
(*   - design level, inside TLC: the lines delivered cont by cont, the     *)
(*     choices, variables and counts at the end of the turn equal what the *)
(*     semantics without look-ahead gives (C01's "exactly once, however    *)
(*     far the engine looked ahead");                                      *)
(*   - conformance: every cont of the real engine returns the line, tags,  *)
(*     can-continue flag, pending choices and variable values of the       *)
(*     model - i.e. what a host can see BETWEEN lines is the state at the  *)
(*     newline when text follows and the state at the end when nothing     *)
(*     does.                                                               *)
(***************************************************************************)
EXTENDS Integers, Sequences, FiniteSets, TLC

CONSTANT Prog

S == INSTANCE InkSem
OS == INSTANCE InkOutput

NoSnap == <<>>

\* engine state: [m |-> machine of InkSem, snap |-> NoSnap or the machine at the last newline,
\*                log |-> the calls of external functions the host has really received during this continue]
Engine(m) == [m |-> m, snap |-> NoSnap, log |-> <<>>]

CanContinue(m) == m.st = "run" /\ m.err = ""
TagCount(out) == Cardinality({i \in DOMAIN out : out[i].k = "tag"})
TagsOf(out) == LET idx == SelectSeq([i \in 1..Len(out) |-> i], LAMBDA i : out[i].k = "tag") IN
               [j \in 1..Len(idx) |-> OS!CleanWs(out[idx[j]].v)]

\* what happened to the newline the snapshot was taken at
Change(prevText, currText, prevTags, currTags) ==
  LET lp == Len(prevText)
      lc == Len(currText)
      still == lc >= lp /\ lp > 0 /\ currText[lp] = 10 IN
  IF prevTags = currTags /\ lp = lc /\ still THEN "none"
  ELSE IF ~still THEN "removed"
  ELSE IF currTags > prevTags THEN "extended"
  ELSE IF \E i \in (lp + 1)..lc : currText[i] \notin {32, 9} THEN "extended"
  ELSE "none"

\* the start of a cont: the output of the previous line is dropped
BeginCont(e) == [e EXCEPT !.m.out = <<>>, !.m.dirty = {}, !.m.touched = {}, !.log = <<>>]

\* the statement the machine is about to execute is a call of an external function that was bound as NOT safe to run
\* in look-ahead
NextIsUnsafeCall(m) ==
  /\ m.st = "run" /\ m.th # <<>> /\ Head(m.th) # <<>> /\ Head(Head(m.th)).fr # <<>>
  /\ LET f == Head(Head(Head(m.th)).fr) IN
     /\ f.i <= Len(Prog.bodies[f.b])
     /\ LET st == Prog.bodies[f.b][f.i] IN
        st.k = "call" /\ st.f \in DOMAIN Prog.externs /\ ~Prog.externs[st.f].safe

\* one iteration of the continue loop; done: the line is complete (rewound to the newline)
SingleStep(e) ==
  IF e.snap # NoSnap /\ NextIsUnsafeCall(e.m)
  THEN \* looking ahead past a newline, the engine must not run such a function: the line ends here, the call is made by
       \* the next continue
       [m |-> e.snap, snap |-> NoSnap, done |-> TRUE, log |-> e.log]
  ELSE
  LET m1 == IF e.m.st = "run" THEN S!StepM(e.m) ELSE e.m IN
  IF m1.err # "" /\ e.m.err = ""
  THEN \* a runtime error leaves the loop at once; an error met while looking ahead is taken back with the look-ahead
       \* (the continue that really executes the statement will meet it again)
       [m |-> IF e.snap # NoSnap THEN e.snap ELSE m1, snap |-> NoSnap, done |-> TRUE,
        log |-> e.log \o SubSeq(m1.calls, Len(e.m.calls) + 1, Len(m1.calls))]
  ELSE
  LET
      \* the host has received whatever calls this step made - also when the step is rewound afterwards
      log == e.log \o SubSeq(m1.calls, Len(e.m.calls) + 1, Len(m1.calls))
      \* out of content: follow an invisible default choice if that is all there is, else the flow has stopped
      m2 == IF m1.st \in {"stopping", "end"} /\ m1.err = "" THEN S!Settle(m1) ELSE m1
      text == OS!CurrentText(m2.out)
      r1 == IF e.snap # NoSnap
            THEN LET ch == Change(OS!CurrentText(e.snap.out), text, TagCount(e.snap.out), TagCount(m2.out)) IN
                 IF ch = "extended" THEN [m |-> e.snap, snap |-> NoSnap, done |-> TRUE, log |-> log]
                 ELSE IF ch = "removed" THEN [m |-> m2, snap |-> NoSnap, done |-> FALSE, log |-> log]
                 ELSE [m |-> m2, snap |-> e.snap, done |-> FALSE, log |-> log]
            ELSE [m |-> m2, snap |-> NoSnap, done |-> FALSE, log |-> log] IN
  IF r1.done THEN r1
  ELSE IF OS!EndsInNewline(r1.m.out)
       THEN IF CanContinue(r1.m) THEN [r1 EXCEPT !.snap = IF r1.snap = NoSnap THEN r1.m ELSE r1.snap]
            ELSE [r1 EXCEPT !.snap = NoSnap]             \* nothing can follow: the look-ahead state is the state
       ELSE r1

\* the flow has run out of content with nothing on offer and without END / DONE: an error, raised when the loop is left
OutOfContent(m) == IF m.st = "out" /\ m.err = "" THEN [m EXCEPT !.err = "out", !.th = S!Fresh, !.ch = <<>>, !.last = <<>>] ELSE m

\* the loop is left: a snapshot still pending means the look-ahead went further than the line
EndCont(e) == IF e.snap # NoSnap THEN [m |-> e.snap, snap |-> NoSnap, log |-> e.log] ELSE [m |-> e.m, snap |-> NoSnap, log |-> e.log]

LoopOver(r) == r.done \/ ~CanContinue(r.m)

\* what the host sees after a cont
Seen(e) ==
  [ text |-> OS!CurrentText(e.m.out), tags |-> TagsOf(e.m.out), can |-> CanContinue(e.m),
    choices |-> IF CanContinue(e.m) THEN <<>>     \* (choices are only offered when the flow has stopped)
                ELSE LET vis == S!Visible(e.m) IN [i \in 1..Len(vis) |-> vis[i].text] ]

(***************************************************************************)
(* The state as the save document shows it (runtime/src/story_state.rs     *)
(* write_json, callstack.rs, flow.rs): the part of a real save that has a  *)
(* counterpart in the machine - compared after every cont.                 *)
(*   turn     turnIdx                                                      *)
(*   vars     variablesState: the globals that differ from their declared  *)
(*            initial value                                                *)
(*   counts   visitCounts of knots, stitches, tunnels and functions        *)
(*   threads  callstack.threads, oldest first; per thread its elements,    *)
(*            bottom first: type (0 flow / tunnel, 1 function), temporary  *)
(*            variables, the knot the element's pointer is in ("" for a    *)
(*            finished flow)                                               *)
(*   stream   outputStream: text, newline, glue and tag items              *)
(*   choices  currentChoices: text and tags                                *)
(***************************************************************************)
Default(v) == Prog.globals[S!VarMap[v]].v
ElemView(a) ==
  [ type |-> IF a.kind = "fn" THEN 1 ELSE IF a.kind = "game" THEN 2 ELSE 0,
    temps |-> [x \in (DOMAIN a.temps) \ {"$ret"} |-> a.temps[x]],
    knot |-> IF a.fr = <<>> THEN "" ELSE LET ch == Prog.ochain[Head(a.fr).b] IN IF ch = <<>> THEN "" ELSE ch[1] ]
ThreadView(t) == [i \in 1..Len(t) |-> ElemView(t[Len(t) + 1 - i])]
\* adjacent text items are one piece of text as far as the comparison goes; tags are compared cleaned
RECURSIVE Merged(_)
Merged(out) ==
  IF Len(out) < 2 THEN out
  ELSE IF out[1].k = "t" /\ out[2].k = "t" THEN Merged(<<[k |-> "t", v |-> out[1].v \o out[2].v]>> \o SubSeq(out, 3, Len(out)))
  ELSE <<out[1]>> \o Merged(Tail(out))
\* (whitespace at the edges of a piece of text is not observable: pieces are compared cleaned, empty ones dropped)
StreamView(out) ==
  LET mm == Merged(SelectSeq(out, LAMBDA it : it.k # "commit"))
      cl == [i \in 1..Len(mm) |-> IF mm[i].k \in {"tag", "t"} THEN [k |-> mm[i].k, v |-> OS!CleanWs(mm[i].v)] ELSE mm[i]] IN
  SelectSeq(cl, LAMBDA it : it.k # "t" \/ it.v # <<>>)
SaveView(m) ==
  [ turn |-> m.turn,
    vars |-> [v \in {v \in DOMAIN m.vars : m.vars[v] # Default(v)} |-> m.vars[v]],
    counts |-> [k \in (DOMAIN m.cnt) \cap (DOMAIN Prog.knots) |-> m.cnt[k]],
    threads |-> [i \in 1..Len(m.th) |-> ThreadView(m.th[Len(m.th) + 1 - i])],
    stream |-> StreamView(m.out),
    choices |-> [i \in 1..Len(m.ch) |-> [text |-> m.ch[i].text, tags |-> m.ch[i].tags]] ]

=============================================================================
